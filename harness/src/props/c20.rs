//! C20 — serde (JSON = human-readable, CBOR = compact) and Display/FromStr round trips.
//!
//! Oracle: the inverse. For every listed type `T` and generated value `v`
//!   serde_json::from_str(to_string(v)) == v, serde_json::from_value(to_value(v)) == v,
//!   serde_cbor::from_slice(to_vec(v)) == v, and T::from_str(v.to_string()) == v
//! where both directions exist. An `Err` in either direction on the type's own output is a
//! violation. Types whose `PartialEq` is coarser than their content (`TapTree`: root hash only)
//! are additionally compared through the underlying builder / leaf lists.
use crate::refimpl::Variant as _;
use std::collections::BTreeMap;
use std::fmt::{Debug, Display};
use std::str::FromStr;

use elements::bitcoin::bip32::{KeySource, Xpub};
use elements::confidential::{Asset, AssetBlindingFactor, Nonce, Value, ValueBlindingFactor};
use elements::dynafed::{self, ElidedRoot, ParamsRoot};
use elements::locktime::{Height, Time};
use elements::pset::raw::Pair as RawPair;
use elements::pset::{
    Global, GlobalTxData, Input as PsetInput, Output as PsetOutput, PartiallySignedTransaction as Pset,
    PsbtSighashType, TapTree,
};
use elements::secp256k1_zkp::Tweak;
use elements::taproot::{
    ControlBlock, LeafInfo, LeafVersion, NodeInfo, TapLeafHash, TapNodeHash, TapTweakHash, TaprootBuilder,
};
use elements::{
    Address, AssetEntropy, AssetId, AssetIssuance, BlockExtData, BlockHash, ContractHash,
    DynafedRoot, EcdsaSighashType, LockTime, OutPoint, SchnorrSighashType, ScriptHash,
    Sequence, TxIn, TxMerkleNode, TxOut, TxOutSecrets, Txid, WScriptHash,
    Wtxid,
};
use serde::de::DeserializeOwned;
use serde::{Deserialize, Serialize};
use serde_json::json;

use crate::engine::*;
use crate::gen::pset::{self as gp, PsetOpts};
use crate::gen::{self, ct, TxOpts};
use crate::props::{c06, c07};

pub const KF_PSET_SERDE: &str = "pset-serde-duplicate-version-field";
pub const KF_PARITY_JSON: &str = "control-block-parity-not-readable-from-json";
pub const KF_BYTE_MAP_BORROWED: &str = "pset-input-byte-maps-need-borrowed-json-strings";

// ------------------------------------------------------------------ round-trip core

#[derive(Debug, Clone, Copy, PartialEq, Eq)]
enum Stage {
    Serialize,
    Deserialize,
    NotEqual,
}

/// one failed codec round trip
#[derive(Debug, Clone)]
struct RtFail {
    codec: &'static str,
    stage: Stage,
    /// the (de)serializer's error message, empty for `NotEqual`
    err: String,
    /// prefix of the encoding / both values
    detail: String,
}

impl RtFail {
    fn into_failure(self, name: &str) -> Failure {
        let what = match self.stage {
            Stage::Serialize => "cannot be serialized",
            Stage::Deserialize => "does not deserialize from its own serialization",
            Stage::NotEqual => "deserializes from its own serialization to a different value",
        };
        Failure::new(format!("{} {} ({}): {}\n {}", name, what, self.codec, self.err, self.detail))
    }
}

fn prefix(s: &str, n: usize) -> String {
    if s.len() <= n {
        return s.to_string();
    }
    let mut cut = n;
    while !s.is_char_boundary(cut) {
        cut -= 1;
    }
    format!("{}... [{} bytes]", &s[..cut], s.len())
}

fn dbg<T: Debug>(v: &T, n: usize) -> String {
    prefix(&format!("{:?}", v), n)
}

/// "json-text" / "cbor" hand the visitors data borrowed from the input (`&'de str`, `&'de [u8]`), "json-value" owned
/// strings, and the two reader codecs transient data (`visit_str` / `visit_bytes` on a scratch buffer): a visitor or
/// field that insists on borrowed data passes the first kind only.
const CODECS: [&str; 5] = ["json-text", "json-value", "cbor", "json-reader", "cbor-reader"];

/// The five codec round trips of one value; every call into a (de)serializer is guarded.
/// Returns the list of failed codecs (empty = all five round-trip).
fn rt_core<T>(
    name: &'static str,
    v: &T,
    eq: &dyn Fn(&T, &T) -> bool,
    nontrivial: bool,
    ctx: &mut Ctx,
) -> Result<Vec<RtFail>, Failure>
where
    T: Serialize + DeserializeOwned + Debug,
{
    let mut fails = Vec::new();

    // 1. JSON text (human-readable representation)
    ctx.eval();
    ctx.class(&format!("{}:{}", name, CODECS[0]));
    let mut json_text: Option<String> = None;
    match guard::guard("serde_json::to_string", 0, || serde_json::to_string(v))? {
        Err(e) => fails.push(RtFail { codec: CODECS[0], stage: Stage::Serialize, err: e.to_string(), detail: dbg(v, 900) }),
        Ok(s) => {
            match guard::guard("serde_json::from_str", s.len(), || serde_json::from_str::<T>(&s))? {
                Err(e) => fails.push(RtFail {
                    codec: CODECS[0],
                    stage: Stage::Deserialize,
                    err: e.to_string(),
                    detail: format!("json={}", prefix(&s, 1100)),
                }),
                Ok(b) => {
                    if !eq(&b, v) {
                        fails.push(RtFail {
                            codec: CODECS[0],
                            stage: Stage::NotEqual,
                            err: String::new(),
                            detail: format!("json={}\n before={}\n after ={}", prefix(&s, 500), dbg(v, 500), dbg(&b, 500)),
                        });
                    }
                }
            }
            // 1b. the same text through a reader (transient strings); serde_json's reader path is several times slower
            // than from_str, and a long document exercises no visitor a short one does not: texts up to 16 KiB only
            if s.len() > 16 * 1024 {
                ctx.class("json-reader:skipped:document>16KiB");
            } else {
            ctx.eval();
            ctx.class(&format!("{}:{}", name, CODECS[3]));
            match guard::guard("serde_json::from_reader", s.len(), || serde_json::from_reader::<_, T>(s.as_bytes()))? {
                Err(e) => fails.push(RtFail {
                    codec: CODECS[3],
                    stage: Stage::Deserialize,
                    err: e.to_string(),
                    detail: format!("json={}", prefix(&s, 1100)),
                }),
                Ok(b) => {
                    if !eq(&b, v) {
                        fails.push(RtFail {
                            codec: CODECS[3],
                            stage: Stage::NotEqual,
                            err: String::new(),
                            detail: format!("json={}\n before={}\n after ={}", prefix(&s, 500), dbg(v, 500), dbg(&b, 500)),
                        });
                    }
                }
            }
            }
            json_text = Some(s);
        }
    }

    // 2. JSON value tree
    ctx.eval();
    ctx.class(&format!("{}:{}", name, CODECS[1]));
    match guard::guard("serde_json::to_value", 0, || serde_json::to_value(v))? {
        Err(e) => fails.push(RtFail { codec: CODECS[1], stage: Stage::Serialize, err: e.to_string(), detail: dbg(v, 900) }),
        Ok(val) => {
            let shown = if fails.is_empty() { String::new() } else { prefix(&val.to_string(), 1100) };
            match guard::guard("serde_json::from_value", 0, || serde_json::from_value::<T>(val))? {
                Err(e) => fails.push(RtFail {
                    codec: CODECS[1],
                    stage: Stage::Deserialize,
                    err: e.to_string(),
                    detail: format!("value={}", if shown.is_empty() { json_text.as_deref().map(|s| prefix(s, 1100)).unwrap_or_default() } else { shown }),
                }),
                Ok(b) => {
                    if !eq(&b, v) {
                        fails.push(RtFail {
                            codec: CODECS[1],
                            stage: Stage::NotEqual,
                            err: String::new(),
                            detail: format!("before={}\n after ={}", dbg(v, 700), dbg(&b, 700)),
                        });
                    }
                }
            }
        }
    }

    // 3. CBOR (binary self-describing; `is_human_readable() == false`: compact representation)
    ctx.eval();
    ctx.class(&format!("{}:{}", name, CODECS[2]));
    match guard::guard("serde_cbor::to_vec", 0, || serde_cbor::to_vec(v))? {
        Err(e) => fails.push(RtFail { codec: CODECS[2], stage: Stage::Serialize, err: e.to_string(), detail: dbg(v, 900) }),
        Ok(bytes) => {
            match guard::guard("serde_cbor::from_slice", bytes.len(), || serde_cbor::from_slice::<T>(&bytes))? {
                Err(e) => fails.push(RtFail {
                    codec: CODECS[2],
                    stage: Stage::Deserialize,
                    err: e.to_string(),
                    detail: format!("cbor={}\n value={}", prefix(&hex(&bytes), 800), dbg(v, 400)),
                }),
                Ok(b) => {
                    if !eq(&b, v) {
                        fails.push(RtFail {
                            codec: CODECS[2],
                            stage: Stage::NotEqual,
                            err: String::new(),
                            detail: format!("cbor={}\n before={}\n after ={}", prefix(&hex(&bytes), 400), dbg(v, 500), dbg(&b, 500)),
                        });
                    }
                }
            }
            // 3b. the same bytes through a reader (transient byte strings and text). serde_cbor 0.8.2's reader loses its
            // place in the stream on a byte / text string longer than its 16 KiB chunk (a defect of that crate, not of the
            // library under test), so documents that could hold one are left to from_slice.
            if bytes.len() > 16 * 1024 {
                ctx.class("cbor-reader:skipped:document>16KiB");
                return finish(name, nontrivial, &json_text, fails, ctx);
            }
            ctx.eval();
            ctx.class(&format!("{}:{}", name, CODECS[4]));
            match guard::guard("serde_cbor::from_reader", bytes.len(), || serde_cbor::from_reader::<T, _>(&bytes[..]))? {
                Err(e) => fails.push(RtFail {
                    codec: CODECS[4],
                    stage: Stage::Deserialize,
                    err: e.to_string(),
                    detail: format!("cbor={}\n value={}", prefix(&hex(&bytes), 800), dbg(v, 400)),
                }),
                Ok(b) => {
                    if !eq(&b, v) {
                        fails.push(RtFail {
                            codec: CODECS[4],
                            stage: Stage::NotEqual,
                            err: String::new(),
                            detail: format!("cbor={}\n before={}\n after ={}", prefix(&hex(&bytes), 400), dbg(v, 500), dbg(&b, 500)),
                        });
                    }
                }
            }
        }
    }

    finish(name, nontrivial, &json_text, fails, ctx)
}

fn finish(name: &'static str, nontrivial: bool, json_text: &Option<String>, fails: Vec<RtFail>, ctx: &mut Ctx) -> Result<Vec<RtFail>, Failure> {
    if nontrivial {
        if let Some(s) = json_text {
            ctx.nontrivial(&(name, s));
            if ctx.wants_sample(name) {
                ctx.sample(name, || json!({"type": name, "json_prefix": prefix(s, 100)}));
            }
        }
    }
    Ok(fails)
}

fn serde_rt_with<T>(name: &'static str, v: &T, eq: &dyn Fn(&T, &T) -> bool, nontrivial: bool, ctx: &mut Ctx) -> R
where
    T: Serialize + DeserializeOwned + Debug,
{
    match rt_core(name, v, eq, nontrivial, ctx)?.into_iter().next() {
        None => Ok(()),
        Some(f) => Err(f.into_failure(name)),
    }
}

fn serde_rt_nt<T>(name: &'static str, v: &T, nontrivial: bool, ctx: &mut Ctx) -> R
where
    T: Serialize + DeserializeOwned + PartialEq + Debug,
{
    serde_rt_with(name, v, &|a: &T, b: &T| a == b, nontrivial, ctx)
}

/// JSON text, JSON value and CBOR round trip of one value, compared with `==`
pub fn serde_rt<T>(name: &'static str, v: &T, ctx: &mut Ctx) -> R
where
    T: Serialize + DeserializeOwned + PartialEq + Debug,
{
    serde_rt_nt(name, v, true, ctx)
}

/// Round trip of a helper type the statement does not list, in a state that cannot occur inside a listed type
/// (an empty / incomplete `TaprootBuilder`, a `NodeInfo` or `LeafInfo` or `raw::Pair` on its own ...): recorded in the
/// histogram, never a verdict - a library that stops serializing such a value on its own still satisfies the statement.
fn diag_rt<T>(name: &'static str, v: &T, eq: &dyn Fn(&T, &T) -> bool, ctx: &mut Ctx) -> R
where
    T: Serialize + DeserializeOwned + Debug,
{
    match rt_core(name, v, eq, false, ctx) {
        Ok(fails) => {
            for f in fails {
                ctx.class(&format!("diagnostic-only:{}:{}:{:?}", name, f.codec, f.stage));
            }
        }
        Err(_) => ctx.class(&format!("diagnostic-only:{}:guard-failure", name)),
    }
    Ok(())
}

/// `T::from_str(&v.to_string()) == v`
fn str_rt<T>(name: &'static str, v: &T, nontrivial: bool, ctx: &mut Ctx) -> R
where
    T: Display + FromStr + PartialEq + Debug,
    T::Err: Debug,
{
    ctx.eval();
    ctx.class(&format!("{}:display-fromstr", name));
    let s = guard::guard("to_string", 0, || v.to_string())?;
    match guard::guard("from_str", s.len(), || T::from_str(&s))? {
        Err(e) => Err(Failure::new(format!("{}::from_str rejects the value's own Display form {:?}: {:?} (value {})", name, prefix(&s, 600), e, dbg(v, 400)))),
        Ok(b) => {
            if &b != v {
                return Err(Failure::new(format!(
                    "{}::from_str(to_string(v)) != v: text={:?}\n before={}\n after ={}",
                    name,
                    prefix(&s, 400),
                    dbg(v, 500),
                    dbg(&b, 500)
                )));
            }
            if nontrivial {
                ctx.nontrivial(&(name, "str", &s));
                let cls = format!("{}:str", name);
                if ctx.wants_sample(&cls) {
                    ctx.sample(&cls, || json!({"type": name, "text": prefix(&s, 100)}));
                }
            }
            Ok(())
        }
    }
}

// ------------------------------------------------------------------ small generators

fn gen_arr32(t: &mut Tape) -> [u8; 32] {
    match t.below(8) {
        0 => [0u8; 32],
        1 => [0xff; 32],
        2 => {
            let mut a = [0u8; 32];
            a[0] = 1;
            a
        }
        3 => {
            let mut a = [0u8; 32];
            a[31] = 1;
            a
        }
        _ => t.arr32(),
    }
}
fn gen_arr20(t: &mut Tape) -> [u8; 20] {
    match t.below(6) {
        0 => [0u8; 20],
        1 => [0xff; 20],
        _ => t.arr20(),
    }
}

fn gen_abf(t: &mut Tape, salt: u32) -> AssetBlindingFactor {
    match t.below(5) {
        0 => AssetBlindingFactor::zero(),
        1 => AssetBlindingFactor::from_slice(gen::gen_tweak(t).as_ref()).unwrap_or_else(|_| AssetBlindingFactor::zero()),
        2 => {
            // small scalar: leading zero bytes must survive the reversed-hex text form
            let mut a = [0u8; 32];
            a[31] = t.u8();
            a[30] = t.u8();
            AssetBlindingFactor::from_slice(&a).unwrap_or_else(|_| AssetBlindingFactor::zero())
        }
        _ => ct::abf_from(t, salt),
    }
}
fn gen_vbf(t: &mut Tape, salt: u32) -> ValueBlindingFactor {
    match t.below(5) {
        0 => ValueBlindingFactor::zero(),
        1 => ValueBlindingFactor::from_slice(gen::gen_tweak(t).as_ref()).unwrap_or_else(|_| ValueBlindingFactor::zero()),
        2 => {
            let mut a = [0u8; 32];
            a[0] = t.u8() & 0x7f;
            a[31] = t.u8();
            ValueBlindingFactor::from_slice(&a).unwrap_or_else(|_| ValueBlindingFactor::zero())
        }
        _ => ct::vbf_from(t, salt),
    }
}

/// every value of the type: `Reserved` prints as "SIGHASH_RESERVED" and parses back (it is only `SchnorrSig`, whose
/// codec cannot carry it, that keeps to the seven values of `gp::SCHNORR_TYPES`)
const SCHNORR_ALL: [SchnorrSighashType; 8] = [
    SchnorrSighashType::Default,
    SchnorrSighashType::All,
    SchnorrSighashType::None,
    SchnorrSighashType::Single,
    SchnorrSighashType::AllPlusAnyoneCanPay,
    SchnorrSighashType::NonePlusAnyoneCanPay,
    SchnorrSighashType::SinglePlusAnyoneCanPay,
    SchnorrSighashType::Reserved,
];

const ECDSA_TYPES: [EcdsaSighashType; 6] = [
    EcdsaSighashType::All,
    EcdsaSighashType::None,
    EcdsaSighashType::Single,
    EcdsaSighashType::AllPlusAnyoneCanPay,
    EcdsaSighashType::NonePlusAnyoneCanPay,
    EcdsaSighashType::SinglePlusAnyoneCanPay,
];

fn gen_psbt_sighash(t: &mut Tape) -> PsbtSighashType {
    match t.below(6) {
        0 => t.choose(&gp::SCHNORR_TYPES).into(),
        1 => t.choose(&ECDSA_TYPES).into(),
        2 => PsbtSighashType::from_u32(t.choose(&[0xffu32, 0x100, 0x80, 0x04, 0x84, 0x7f, 0x1_0000_0000u64 as u32, 0xffff_ffff, 0x10, 0xa])),
        3 => PsbtSighashType::from_u32(t.u8() as u32),
        _ => PsbtSighashType::from_u32(t.edgy_u32()),
    }
}

fn gen_outpoint(t: &mut Tape) -> OutPoint {
    match t.below(5) {
        0 => OutPoint::null(),
        1 => OutPoint { txid: gen::gen_txid(t), vout: 0xffff_ffff },
        _ => OutPoint { txid: gen::gen_txid(t), vout: t.edgy_u32() },
    }
}

/// builders in every state: empty, incomplete (holes in the branch vector), with hidden nodes, complete
fn gen_builder(t: &mut Tape) -> TaprootBuilder {
    match t.below(5) {
        0 => TaprootBuilder::new(),
        1 => {
            // incomplete: one leaf at depth d >= 1
            let d = 1 + t.below(4);
            let s = gen::gen_script(t, false);
            TaprootBuilder::new().add_leaf_with_ver(d, s, gp::gen_leaf_version(t)).unwrap_or_default()
        }
        2 => {
            // a hidden node next to a leaf (complete), or two hidden nodes
            let h = TapNodeHash::from_byte_array(gen_arr32(t));
            let b = TaprootBuilder::new().add_hidden(1, h).unwrap_or_default();
            if t.bool() {
                b.add_leaf(1, gen::gen_script(t, false)).unwrap_or_default()
            } else {
                b.add_hidden(1, TapNodeHash::from_byte_array(gen_arr32(t))).unwrap_or_default()
            }
        }
        _ => match gp::gen_tap_tree(t, 8) {
            Some((tt, _)) => tt.into_inner(),
            None => TaprootBuilder::new(),
        },
    }
}

fn tap_tree_eq(a: &Option<TapTree>, b: &Option<TapTree>) -> bool {
    match (a, b) {
        (None, None) => true,
        (Some(x), Some(y)) => x == y && x.clone().into_inner() == y.clone().into_inner() && gp::tap_tree_leaves(x) == gp::tap_tree_leaves(y),
        _ => false,
    }
}
fn output_eq(a: &PsetOutput, b: &PsetOutput) -> bool {
    a == b && tap_tree_eq(&a.tap_tree, &b.tap_tree)
}
fn pset_full_eq(a: &Pset, b: &Pset) -> bool {
    a == b
        && c07::pset_eq(a, b)
        && a.outputs().len() == b.outputs().len()
        && a.outputs().iter().zip(b.outputs().iter()).all(|(x, y)| output_eq(x, y))
}

// ------------------------------------------------------------------ sub-check: transactions

fn txout_nontrivial(o: &TxOut) -> bool {
    o.asset.v_conf() || o.value.v_conf() || !o.nonce.is_null() || !o.witness.is_empty()
}
fn txin_nontrivial(i: &TxIn) -> bool {
    i.is_pegin || i.has_issuance() || !i.witness.is_empty()
}

fn tx_family(t: &mut Tape, ctx: &mut Ctx) -> R {
    let o = TxOpts { big: t.chance(24), ..TxOpts::default() };
    match t.below(10) {
        0..=3 => {
            let tx = gen::gen_tx(t, &o);
            let feats = gen::tx_features(&tx);
            for f in &feats {
                ctx.class(&format!("tx-feature:{}", f));
            }
            serde_rt_nt("Transaction", &tx, !feats.is_empty(), ctx)
        }
        4 => {
            let i = gen::gen_txin(t, &o);
            serde_rt_nt("TxIn", &i, txin_nontrivial(&i), ctx)
        }
        5 => {
            let x = gen::gen_txout(t, &o);
            serde_rt_nt("TxOut", &x, txout_nontrivial(&x), ctx)
        }
        6 => {
            let w = gen::gen_in_witness(t, o.big);
            serde_rt_nt("TxInWitness", &w, !w.is_empty(), ctx)
        }
        7 => {
            let w = gen::gen_out_witness(t);
            serde_rt_nt("TxOutWitness", &w, !w.is_empty(), ctx)
        }
        8 => {
            let p = gen_outpoint(t);
            serde_rt_nt("OutPoint", &p, p != OutPoint::null(), ctx)
        }
        _ => {
            let i = if t.chance(40) { AssetIssuance::null() } else { gen::gen_issuance_nonnull(t) };
            serde_rt_nt("AssetIssuance", &i, !i.is_null(), ctx)
        }
    }
}

// ------------------------------------------------------------------ sub-check: blocks, headers, params

fn params_kind(p: &dynafed::Params) -> &'static str {
    match p {
        dynafed::Params::Null => "null",
        dynafed::Params::Compact { .. } => "compact",
        dynafed::Params::Full(_) => "full",
    }
}
fn ext_nontrivial(e: &BlockExtData) -> bool {
    match e {
        BlockExtData::Proof { challenge, solution } => !challenge.is_empty() || !solution.is_empty(),
        BlockExtData::Dynafed { current, proposed, signblock_witness } => {
            !current.is_null() || !proposed.is_null() || !signblock_witness.is_empty()
        }
    }
}

fn block_family(t: &mut Tape, ctx: &mut Ctx) -> R {
    match t.below(8) {
        0 | 1 => {
            let b = gen::gen_block(t);
            ctx.class(&format!("block:txs={}", if b.txdata.len() > 8 { ">8".to_string() } else { b.txdata.len().to_string() }));
            serde_rt_nt("Block", &b, !b.txdata.is_empty() && ext_nontrivial(&b.header.ext), ctx)
        }
        2 | 3 => {
            let h = gen::gen_header(t);
            match &h.ext {
                BlockExtData::Proof { .. } => ctx.class("header:proof"),
                BlockExtData::Dynafed { current, proposed, .. } => {
                    ctx.class(&format!("header:dynafed:{}+{}", params_kind(current), params_kind(proposed)))
                }
            }
            serde_rt_nt("BlockHeader", &h, ext_nontrivial(&h.ext), ctx)
        }
        4 => {
            let h = gen::gen_header(t);
            serde_rt_nt("BlockExtData", &h.ext, ext_nontrivial(&h.ext), ctx)
        }
        _ => {
            // values the library itself serializes: each of the three variants selects itself again
            // by the set of fields it writes
            let p = gen::gen_params(t);
            ctx.class(&format!("params:{}", params_kind(&p)));
            serde_rt_nt("dynafed::Params", &p, !p.is_null(), ctx)
        }
    }
}

// ------------------------------------------------------------------ sub-check: confidential types

fn confidential(t: &mut Tape, ctx: &mut Ctx) -> R {
    let a = gen::gen_asset(t);
    ctx.class(match a {
        Asset::Null => "asset:null",
        Asset::Explicit(_) => "asset:explicit",
        Asset::Confidential(_) => "asset:confidential",
    });
    serde_rt_nt("confidential::Asset", &a, !a.is_null(), ctx)?;
    let v = gen::gen_value(t);
    ctx.class(match v {
        Value::Null => "value:null",
        Value::Explicit(n) if n > (1 << 53) => "value:explicit>2^53",
        Value::Explicit(_) => "value:explicit",
        Value::Confidential(_) => "value:confidential",
    });
    serde_rt_nt("confidential::Value", &v, !v.is_null(), ctx)?;
    let n = gen::gen_nonce(t);
    ctx.class(match n {
        Nonce::Null => "nonce:null",
        Nonce::Explicit(_) => "nonce:explicit",
        Nonce::Confidential(_) => "nonce:confidential",
    });
    serde_rt_nt("confidential::Nonce", &n, !n.is_null(), ctx)?;
    let abf = gen_abf(t, 1);
    serde_rt_nt("AssetBlindingFactor", &abf, abf != AssetBlindingFactor::zero(), ctx)?;
    let vbf = gen_vbf(t, 2);
    serde_rt_nt("ValueBlindingFactor", &vbf, vbf != ValueBlindingFactor::zero(), ctx)?;
    let s = TxOutSecrets::new(gen::gen_asset_id(t), gen_abf(t, 3), t.edgy_u64(), gen_vbf(t, 4));
    if s.value > (1 << 53) {
        ctx.class("secrets:value>2^53");
    }
    serde_rt_nt("TxOutSecrets", &s, s.asset_bf != AssetBlindingFactor::zero() || s.value_bf != ValueBlindingFactor::zero(), ctx)
}

// ------------------------------------------------------------------ sub-check: hash newtypes and small types

fn hashes_and_small(t: &mut Tape, ctx: &mut Ctx) -> R {
    macro_rules! h32 {
        ($name:literal, $ty:ty) => {{
            let b = gen_arr32(t);
            let v = <$ty>::from_byte_array(b);
            serde_rt_nt($name, &v, b != [0u8; 32], ctx)?;
        }};
    }
    h32!("Txid", Txid);
    h32!("Wtxid", Wtxid);
    h32!("BlockHash", BlockHash);
    h32!("TxMerkleNode", TxMerkleNode);
    h32!("WScriptHash", WScriptHash);
    h32!("ContractHash", ContractHash);
    h32!("AssetId", AssetId);
    h32!("AssetEntropy", AssetEntropy);
    h32!("DynafedRoot", DynafedRoot);
    h32!("ParamsRoot", ParamsRoot);
    h32!("ElidedRoot", ElidedRoot);
    h32!("TapLeafHash", TapLeafHash);
    h32!("TapNodeHash", TapNodeHash);
    h32!("TapTweakHash", TapTweakHash);
    {
        let b = gen_arr20(t);
        serde_rt_nt("ScriptHash", &ScriptHash::from_byte_array(b), b != [0u8; 20], ctx)?;
    }
    let lt = gen::gen_locktime(t);
    ctx.class(match lt {
        LockTime::Blocks(_) => "locktime:blocks",
        LockTime::Seconds(_) => "locktime:seconds",
    });
    serde_rt_nt("LockTime", &lt, lt != LockTime::ZERO, ctx)?;
    let h = gp::gen_height(t);
    serde_rt_nt("locktime::Height", &h, h != Height::ZERO, ctx)?;
    let tm = gp::gen_time(t);
    serde_rt_nt("locktime::Time", &tm, true, ctx)?;
    let sq = Sequence(t.edgy_u32());
    serde_rt_nt("Sequence", &sq, sq != Sequence::MAX, ctx)?;
    let e = t.choose(&ECDSA_TYPES);
    serde_rt_nt("EcdsaSighashType", &e, e != EcdsaSighashType::All, ctx)?;
    let s = t.choose(&SCHNORR_ALL);
    if s == SchnorrSighashType::Reserved {
        ctx.class("schnorr-sighash:reserved");
    }
    serde_rt_nt("SchnorrSighashType", &s, s != SchnorrSighashType::Default, ctx)?;
    let p = gen_psbt_sighash(t);
    ctx.class(if p.schnorr_hash_ty().is_some() { "psbt-sighash:named" } else { "psbt-sighash:raw" });
    serde_rt_nt("PsbtSighashType", &p, p.schnorr_hash_ty().is_none() || p.to_u32() != 0, ctx)?;
    let sig = gp::gen_schnorr_sig(t);
    serde_rt_nt("SchnorrSig", &sig, sig.hash_ty != SchnorrSighashType::Default, ctx)?;
    let lv = gp::gen_leaf_version(t);
    serde_rt_nt("LeafVersion", &lv, lv != LeafVersion::default(), ctx)?;
    if let Some(cb) = gp::gen_control_block(t) {
        ctx.class(&format!("control-block:depth={}", cb.merkle_branch.as_inner().len()));
        let fails = rt_core("ControlBlock", &cb, &|a: &ControlBlock, b: &ControlBlock| a == b, !cb.merkle_branch.as_inner().is_empty(), ctx)?;
        settle("ControlBlock", fails, Allow { parity: true, ..Allow::default() }, ctx)?;
        serde_rt_nt("TaprootMerkleBranch", &cb.merkle_branch, !cb.merkle_branch.as_inner().is_empty(), ctx)?;
    }
    let b = gen_builder(t);
    ctx.class(if b == TaprootBuilder::new() {
        "builder:empty"
    } else if b.is_complete() {
        "builder:complete"
    } else {
        "builder:incomplete"
    });
    if b.is_complete() {
        // the state in which a builder occurs inside a listed type (pset::Output::tap_tree)
        serde_rt_nt("TaprootBuilder", &b, true, ctx)?;
    } else {
        diag_rt("TaprootBuilder(empty or incomplete)", &b, &|x: &TaprootBuilder, y: &TaprootBuilder| x == y, ctx)?;
    }
    if let Ok(tt) = TapTree::from_inner(b) {
        let leaves = gp::tap_tree_leaves(&tt).len();
        let tt = Some(tt);
        serde_rt_with("pset::TapTree", &tt, &|a, b| tap_tree_eq(a, b), leaves >= 2, ctx)?;
    }
    let leaf = LeafInfo::new(gen::gen_script(t, false), gp::gen_leaf_version(t));
    diag_rt("taproot::LeafInfo", &leaf, &|x: &LeafInfo, y: &LeafInfo| x == y, ctx)?;
    let node = {
        let a = NodeInfo::new_leaf_with_ver(gen::gen_script(t, false), gp::gen_leaf_version(t));
        match t.below(3) {
            0 => NodeInfo::new_hidden(TapNodeHash::from_byte_array(gen_arr32(t))),
            1 => a,
            _ => {
                let b = if t.bool() {
                    NodeInfo::new_hidden(TapNodeHash::from_byte_array(gen_arr32(t)))
                } else {
                    NodeInfo::new_leaf_with_ver(gen::gen_script(t, false), gp::gen_leaf_version(t))
                };
                NodeInfo::combine(a.clone(), b).unwrap_or(a)
            }
        }
    };
    diag_rt("taproot::NodeInfo", &node, &|x: &NodeInfo, y: &NodeInfo| x == y, ctx)?;
    let tw = gen::gen_tweak(t);
    serde_rt_nt("Tweak(issuance nonce)", &tw, true, ctx)?;
    Ok(())
}

// ------------------------------------------------------------------ sub-check: addresses and scripts

fn addresses_scripts(t: &mut Tape, ctx: &mut Ctx) -> R {
    let r = c06::gen_ref_addr(t);
    let a = c06::to_lib(&r)?;
    let cls = match &a.payload {
        elements::address::Payload::PubkeyHash(_) => "p2pkh".to_string(),
        elements::address::Payload::ScriptHash(_) => "p2sh".to_string(),
        elements::address::Payload::WitnessProgram { version, program } => {
            format!("v{}/{}", if version.to_u8() > 1 { "2+".to_string() } else { version.to_u8().to_string() }, if [2, 20, 32, 40].contains(&program.len()) { program.len().to_string() } else { "other".to_string() })
        }
    };
    ctx.class(&format!("address:{}{}:net{}", cls, if a.blinding_pubkey.is_some() { "/blinded" } else { "" }, r.net));
    let nt = a.blinding_pubkey.is_some() || matches!(&a.payload, elements::address::Payload::WitnessProgram { .. });
    serde_rt_nt("Address", &a, nt, ctx)?;
    str_rt("Address", &a, nt, ctx)?;
    let big = t.chance(24);
    let s = gen::gen_script(t, big);
    ctx.class(if s.is_empty() {
        "script:empty"
    } else if s.len() >= 0xfd {
        "script:>=0xfd"
    } else {
        "script:short"
    });
    serde_rt_nt("Script", &s, !s.is_empty(), ctx)
}

// ------------------------------------------------------------------ sub-check: PSET parts

/// The field types of `pset::Global` that no other PSET map uses (transaction data, xpub map keyed by
/// extended keys, scalar list), side by side in a plain struct: exercised on their own because the
/// listed finding stops every `Global` at its first key.
#[derive(Serialize, Deserialize, PartialEq, Debug)]
struct GlobalPieces {
    tx_data: GlobalTxData,
    pset_version: u32,
    xpub: BTreeMap<Xpub, KeySource>,
    scalars: Vec<Tweak>,
    elements_tx_modifiable_flag: Option<u8>,
}

fn input_families(i: &PsetInput) -> Vec<&'static str> {
    let mut f = Vec::new();
    if i.non_witness_utxo.is_some() || i.witness_utxo.is_some() {
        f.push("utxo");
    }
    if !i.partial_sigs.is_empty() || !i.bip32_derivation.is_empty() {
        f.push("key-maps");
    }
    if !i.ripemd160_preimages.is_empty() || !i.sha256_preimages.is_empty() || !i.hash160_preimages.is_empty() || !i.hash256_preimages.is_empty() {
        f.push("preimages");
    }
    if i.tap_key_sig.is_some() || !i.tap_script_sigs.is_empty() || !i.tap_scripts.is_empty() || !i.tap_key_origins.is_empty() || i.tap_internal_key.is_some() || i.tap_merkle_root.is_some() {
        f.push("taproot");
    }
    if i.issuance_value_rangeproof.is_some() || i.issuance_keys_rangeproof.is_some() || i.in_utxo_rangeproof.is_some() || i.in_issuance_blind_value_proof.is_some() || i.in_issuance_blind_inflation_keys_proof.is_some() || i.blind_value_proof.is_some() || i.blind_asset_proof.is_some() {
        f.push("proofs");
    }
    if i.pegin_tx.is_some() || i.pegin_txout_proof.is_some() || i.pegin_witness.is_some() || i.pegin_genesis_hash.is_some() || i.pegin_claim_script.is_some() || i.pegin_value.is_some() {
        f.push("pegin");
    }
    if i.issuance_value_amount.is_some() || i.issuance_value_comm.is_some() || i.issuance_inflation_keys.is_some() || i.issuance_inflation_keys_comm.is_some() || i.issuance_blinding_nonce.is_some() || i.issuance_asset_entropy.is_some() {
        f.push("issuance");
    }
    if [i.issuance_value_amount, i.pegin_value, i.issuance_inflation_keys, i.amount].iter().flatten().any(|v| *v > (1 << 53)) {
        f.push("u64>2^53");
    }
    if i.sighash_type.is_some() || i.sequence.is_some() || i.required_time_locktime.is_some() || i.required_height_locktime.is_some() {
        f.push("sighash/sequence/locktimes");
    }
    if !i.proprietary.is_empty() || !i.unknown.is_empty() {
        f.push("proprietary/unknown");
    }
    f
}
fn output_families(o: &PsetOutput) -> Vec<&'static str> {
    let mut f = Vec::new();
    if o.amount_comm.is_some() || o.asset_comm.is_some() {
        f.push("commitments");
    }
    if o.value_rangeproof.is_some() || o.asset_surjection_proof.is_some() || o.blind_value_proof.is_some() || o.blind_asset_proof.is_some() {
        f.push("proofs");
    }
    if o.blinding_key.is_some() || o.ecdh_pubkey.is_some() {
        f.push("blinding-keys");
    }
    if !o.bip32_derivation.is_empty() || !o.tap_key_origins.is_empty() {
        f.push("key-maps");
    }
    if o.tap_tree.is_some() {
        f.push("tap-tree");
    }
    if o.tap_internal_key.is_some() {
        f.push("tap-internal-key");
    }
    if o.amount.map_or(false, |v| v > (1 << 53)) {
        f.push("u64>2^53");
    }
    if !o.proprietary.is_empty() || !o.unknown.is_empty() {
        f.push("proprietary/unknown");
    }
    f
}

/// which listed findings a value can run into (GUIDE rule 7: each is matched by its exact signature)
#[derive(Clone, Copy, Default)]
struct Allow {
    /// the value is a `pset::Global` or a whole PSET
    dup_version: bool,
    /// the value contains a `ControlBlock` (whose `output_key_parity` is a `secp256k1::Parity`)
    parity: bool,
    /// the value contains a non-empty map written by `serde_utils::btreemap_byte_values`
    /// (`partial_sigs` or one of the four preimage maps of a PSET input)
    byte_value_map: bool,
}

fn is_dup_version(f: &RtFail) -> bool {
    // the serialized map carries the key `version` twice; a `serde_json::Value` tree keeps only one
    // of the two, so reading it back misses the other
    f.stage == Stage::Deserialize
        && (f.err.contains("duplicate field `version`") || (f.codec == CODECS[1] && f.err.contains("missing field `version`")))
}
fn is_parity_json(f: &RtFail) -> bool {
    f.stage == Stage::Deserialize
        && (f.codec == CODECS[0] || f.codec == CODECS[1] || f.codec == CODECS[3])
        && f.err.contains("invalid type: integer")
        && f.err.contains("expected 8-bit integer (byte) with value 0 or 1")
}

fn is_borrowed_str(f: &RtFail) -> bool {
    f.stage == Stage::Deserialize && (f.codec == CODECS[1] || f.codec == CODECS[3] || f.codec == CODECS[4]) && f.err.contains("invalid type: string") && f.err.contains("expected a borrowed string")
}

/// every failed codec must carry exactly the signature of a listed finding the value can run into
fn settle(name: &'static str, fails: Vec<RtFail>, allow: Allow, ctx: &mut Ctx) -> R {
    for f in fails {
        if allow.dup_version && is_dup_version(&f) && ctx.is_known(KF_PSET_SERDE) {
            ctx.class(&format!("{}:{}:known-duplicate-version", name, f.codec));
            continue;
        }
        if allow.parity && is_parity_json(&f) && ctx.is_known(KF_PARITY_JSON) {
            ctx.class(&format!("{}:{}:known-parity-json", name, f.codec));
            continue;
        }
        if allow.byte_value_map && is_borrowed_str(&f) && ctx.is_known(KF_BYTE_MAP_BORROWED) {
            ctx.class(&format!("{}:{}:known-byte-map-borrowed-str", name, f.codec));
            continue;
        }
        return Err(f.into_failure(name));
    }
    Ok(())
}

fn has_byte_value_map(i: &PsetInput) -> bool {
    !i.partial_sigs.is_empty() || !i.ripemd160_preimages.is_empty() || !i.sha256_preimages.is_empty() || !i.hash160_preimages.is_empty() || !i.hash256_preimages.is_empty()
}

fn pset_parts(t: &mut Tape, ctx: &mut Ctx) -> R {
    match t.below(10) {
        0..=3 => {
            let density = t.choose(&[40u32, 100, 160, 230, 256]);
            let i = gp::gen_input(t, density);
            let fams = input_families(&i);
            for f in &fams {
                ctx.class(&format!("input-family:{}", f));
            }
            let fails = rt_core("pset::Input", &i, &|a: &PsetInput, b: &PsetInput| a == b, !fams.is_empty(), ctx)?;
            settle("pset::Input", fails, Allow { parity: !i.tap_scripts.is_empty(), byte_value_map: has_byte_value_map(&i), dup_version: false }, ctx)
        }
        4..=6 => {
            let density = t.choose(&[40u32, 100, 160, 230, 256]);
            let n_inputs = 1 + t.below(3);
            let o = gp::gen_output(t, density, n_inputs);
            let fams = output_families(&o);
            for f in &fams {
                ctx.class(&format!("output-family:{}", f));
            }
            serde_rt_with("pset::Output", &o, &|a, b| output_eq(a, b), !fams.is_empty(), ctx)
        }
        7 => {
            // the global map of a generated PSET, its transaction data alone, and its field types
            // side by side in a plain struct
            let p = gp::gen_pset(t, &PsetOpts { max_in: 1, max_out: 1, extractable: false });
            let g: Global = p.global;
            let nt = !g.xpub.is_empty() || !g.scalars.is_empty() || !g.proprietary.is_empty() || !g.unknown.is_empty() || g.tx_data.fallback_locktime.is_some();
            serde_rt_nt("pset::GlobalTxData", &g.tx_data, g.tx_data != GlobalTxData::default(), ctx)?;
            let flat = GlobalPieces {
                tx_data: g.tx_data.clone(),
                pset_version: g.version,
                xpub: g.xpub.clone(),
                scalars: g.scalars.clone(),
                elements_tx_modifiable_flag: g.elements_tx_modifiable_flag,
            };
            let _ = nt;
            diag_rt("pset::Global field types (tx_data, xpub, scalars)", &flat, &|x: &GlobalPieces, y: &GlobalPieces| x == y, ctx)?;
            let fails = rt_core("pset::Global", &g, &|a: &Global, b: &Global| a == b, nt, ctx)?;
            settle("pset::Global", fails, Allow { dup_version: true, ..Allow::default() }, ctx)
        }
        8 => {
            let scope = t.below(3) as u8;
            let k = gp::gen_unknown_key(t, scope);
            serde_rt_nt("pset::raw::Key", &k, !k.key.is_empty(), ctx)?;
            let scope = t.below(3) as u8;
            let pk = gp::gen_prop_key(t, scope);
            serde_rt_nt("pset::raw::ProprietaryKey", &pk, !pk.prefix.is_empty() || !pk.key.is_empty(), ctx)?;
            let l = t.below(40);
            let pair = RawPair { key: k, value: t.bytes(l) };
            diag_rt("pset::raw::Pair", &pair, &|x: &RawPair, y: &RawPair| x == y, ctx)
        }
        _ => {
            let max = if t.chance(40) { 24 } else { 6 };
            match gp::gen_tap_tree(t, max) {
                Some((tt, leaves)) => {
                    ctx.class(&format!("tap-tree:leaves={}", if leaves.len() > 8 { ">8".to_string() } else { leaves.len().to_string() }));
                    let tt = Some(tt);
                    serde_rt_with("pset::TapTree", &tt, &|a, b| tap_tree_eq(a, b), leaves.len() >= 2, ctx)
                }
                None => Ok(()),
            }
        }
    }
}

// ------------------------------------------------------------------ sub-check: whole PSETs

fn pset_full(t: &mut Tape, ctx: &mut Ctx) -> R {
    let mut p = gp::gen_pset(t, &PsetOpts::default());
    if t.chance(60) && !p.inputs().is_empty() {
        // ELIP-102 data lives in the proprietary map
        let k = t.below(p.inputs().len());
        p.inputs_mut()[k].set_abf(ct::abf_from(t, 7));
    }
    let feats = gp::pset_features(&p);
    for f in &feats {
        ctx.class(&format!("pset-feature:{}", f));
    }
    ctx.class(&format!("pset:inputs={} outputs={}", p.inputs().len(), p.outputs().len()));
    let nt = !feats.is_empty() && (!p.inputs().is_empty() || !p.outputs().is_empty());
    let fails = rt_core("PartiallySignedTransaction", &p, &|a: &Pset, b: &Pset| pset_full_eq(a, b), nt, ctx)?;
    let parity = p.inputs().iter().any(|i| !i.tap_scripts.is_empty());
    let byte_value_map = p.inputs().iter().any(has_byte_value_map);
    settle("PartiallySignedTransaction", fails, Allow { dup_version: true, parity, byte_value_map }, ctx)?;
    // base64 text form (feature "base64")
    ctx.eval();
    ctx.class("PartiallySignedTransaction:display-fromstr");
    let text = guard::guard("pset.to_string", 0, || p.to_string())?;
    match guard::guard("Pset::from_str", text.len(), || Pset::from_str(&text))? {
        Ok(b) => {
            if !pset_full_eq(&b, &p) {
                return Err(Failure::new(format!("Pset::from_str(to_string(p)) != p\n before={}\n after ={}", dbg(&p, 700), dbg(&b, 700))));
            }
        }
        Err(e) => return Err(Failure::new(format!("Pset::from_str rejects the PSET's own base64 form: {} ({})", e, prefix(&text, 900)))),
    }
    Ok(())
}

// ------------------------------------------------------------------ sub-check: Display / FromStr

fn display_fromstr(t: &mut Tape, ctx: &mut Ctx) -> R {
    macro_rules! h32 {
        ($name:literal, $ty:ty) => {{
            let b = gen_arr32(t);
            let v = <$ty>::from_byte_array(b);
            str_rt($name, &v, b != [0u8; 32], ctx)?;
        }};
    }
    h32!("Txid", Txid);
    h32!("Wtxid", Wtxid);
    h32!("BlockHash", BlockHash);
    h32!("TxMerkleNode", TxMerkleNode);
    h32!("WScriptHash", WScriptHash);
    h32!("ContractHash", ContractHash);
    h32!("AssetId", AssetId);
    h32!("AssetEntropy", AssetEntropy);
    h32!("DynafedRoot", DynafedRoot);
    h32!("ParamsRoot", ParamsRoot);
    h32!("ElidedRoot", ElidedRoot);
    h32!("TapLeafHash", TapLeafHash);
    h32!("TapNodeHash", TapNodeHash);
    h32!("TapTweakHash", TapTweakHash);
    {
        let b = gen_arr20(t);
        str_rt("ScriptHash", &ScriptHash::from_byte_array(b), b != [0u8; 20], ctx)?;
    }
    let op = gen_outpoint(t);
    str_rt("OutPoint", &op, op != OutPoint::null(), ctx)?;
    let abf = gen_abf(t, 11);
    str_rt("AssetBlindingFactor", &abf, abf != AssetBlindingFactor::zero(), ctx)?;
    let vbf = gen_vbf(t, 12);
    str_rt("ValueBlindingFactor", &vbf, vbf != ValueBlindingFactor::zero(), ctx)?;
    // LockTime: Display (non-alternate) prints the consensus number, FromStr parses a number
    let lt = gen::gen_locktime(t);
    str_rt("LockTime", &lt, lt != LockTime::ZERO, ctx)?;
    let h: Height = gp::gen_height(t);
    str_rt("locktime::Height", &h, h != Height::ZERO, ctx)?;
    let tm: Time = gp::gen_time(t);
    str_rt("locktime::Time", &tm, true, ctx)?;
    let sq = Sequence(t.edgy_u32());
    str_rt("Sequence", &sq, sq != Sequence::MAX, ctx)?;
    let e = t.choose(&ECDSA_TYPES);
    str_rt("EcdsaSighashType", &e, e != EcdsaSighashType::All, ctx)?;
    let s = t.choose(&SCHNORR_ALL);
    if s == SchnorrSighashType::Reserved {
        ctx.class("schnorr-sighash:reserved");
    }
    str_rt("SchnorrSighashType", &s, s != SchnorrSighashType::Default, ctx)?;
    let p = gen_psbt_sighash(t);
    ctx.class(if p.schnorr_hash_ty().is_some() { "psbt-sighash:named" } else { "psbt-sighash:raw" });
    str_rt("PsbtSighashType", &p, p.schnorr_hash_ty().is_none() || p.to_u32() != 0, ctx)?;
    let r = c06::gen_ref_addr(t);
    let a: Address = c06::to_lib(&r)?;
    str_rt("Address", &a, a.blinding_pubkey.is_some() || matches!(&a.payload, elements::address::Payload::WitnessProgram { .. }), ctx)?;
    Ok(())
}

// ------------------------------------------------------------------ property

fn repro_pset_serde() -> bool {
    let p = Pset::new_v2();
    let Ok(s) = serde_json::to_string(&p) else { return false };
    match serde_json::from_str::<Pset>(&s) {
        Err(e) => e.to_string().contains("duplicate field `version`"),
        Ok(_) => false,
    }
}

fn repro_parity_json() -> bool {
    let mut b = vec![0xc4u8];
    b.extend_from_slice(&gen::pool().pubkeys[0].x_only_public_key().0.serialize());
    let Ok(cb) = ControlBlock::from_slice(&b) else { return false };
    let Ok(s) = serde_json::to_string(&cb) else { return false };
    match serde_json::from_str::<ControlBlock>(&s) {
        Err(e) => e.to_string().contains("expected 8-bit integer (byte) with value 0 or 1"),
        Ok(_) => false,
    }
}

fn repro_byte_map_borrowed() -> bool {
    let mut i = PsetInput::default();
    i.partial_sigs.insert(elements::bitcoin::PublicKey { inner: gen::pool().pubkeys[0], compressed: true }, vec![0x30, 0x01]);
    let Ok(v) = serde_json::to_value(&i) else { return false };
    match serde_json::from_value::<PsetInput>(v) {
        Err(e) => e.to_string().contains("expected a borrowed string"),
        Ok(_) => false,
    }
}

pub fn property() -> Property {
    Property {
        id: "C20",
        rule: "Every value comes from the shared tape generators (C01 / C07 variety). serde sub-checks: for each value v of type T \
               five oracle evaluations: serde_json::from_str(to_string(v)) == v, serde_json::from_reader(the same text) == v, \
               serde_json::from_value(to_value(v)) == v (human-readable representation), serde_cbor::from_slice(to_vec(v)) == v \
               and serde_cbor::from_reader(the same bytes) == v (compact representation) - borrowed, owned and transient data \
               for the visitors; an Err in either direction is a violation; TapTree / pset::Output / PSET are additionally compared by builder and \
               leaf list (their PartialEq sees the root hash only). tx_family: Transaction, TxIn, TxOut, TxInWitness, \
               TxOutWitness, OutPoint, AssetIssuance. block_family: Block, BlockHeader (proof and dynafed), BlockExtData, \
               dynafed::Params (Null / Compact / Full). confidential: Asset, Value, Nonce (3 variants each, explicit values up \
               to u64::MAX), Asset/ValueBlindingFactor (zero, small, random), TxOutSecrets. hashes_and_small: 15 hash \
               newtypes / midstate wrappers, LockTime, Height, Time, Sequence, Ecdsa/Schnorr/Psbt sighash types (raw u32 \
               values included; SchnorrSighashType including Reserved), SchnorrSig, LeafVersion, ControlBlock, TaprootMerkleBranch, \
               complete TaprootBuilder (with and without hidden nodes), TapTree, Tweak; diagnostics only, never a verdict (helper \
               types in states that occur in no listed type): empty / incomplete TaprootBuilder, LeafInfo, NodeInfo, raw::Pair, the \
               field types of Global in a plain struct. addresses_scripts: Address (p2pkh, p2sh, witness v0..16, \
               blinded or not, 3 networks; serde and Display/FromStr), Script. pset_parts: pset::Input and pset::Output with \
               every field family at densities 40..256/256, Global, GlobalTxData, raw::Key / ProprietaryKey (as they occur in the \
               unknown / proprietary maps), TapTree up to 24 leaves. pset_full: whole PSETs (0..3 inputs / outputs) through serde \
               and base64 text. display_fromstr: T::from_str(v.to_string()) == v for the hash newtypes, OutPoint, blinding \
               factors, LockTime / Height / Time, Sequence, the three sighash types (all 8 values of SchnorrSighashType), Address. Non-trivial: the value is not \
               the type's default / null / zero value and, for composite types, has >= 1 confidential, optional or map \
               field populated (tx: >= 1 structural feature; PSET part: >= 1 field family); distinct by (type, JSON text).",
        assumptions: &[
            "serde_json stands for human-readable self-describing formats and serde_cbor 0.8 for binary self-describing formats",
            "SchnorrSig carries the seven assignable sighash types only (its byte codec cannot carry Reserved); SchnorrSighashType itself is exercised with all eight values",
            "helper types that the statement does not list are judged only in the states in which they occur inside a listed type",
        ],
        subs: vec![
            Sub { name: "tx_family", kind: Kind::Tape { max_len: 5000, quick: 60_000, thorough: 1_200_000, f: tx_family } },
            Sub { name: "block_family", kind: Kind::Tape { max_len: 5000, quick: 50_000, thorough: 1_000_000, f: block_family } },
            Sub { name: "confidential", kind: Kind::Tape { max_len: 600, quick: 75_000, thorough: 1_500_000, f: confidential } },
            Sub { name: "hashes_and_small", kind: Kind::Tape { max_len: 2500, quick: 30_000, thorough: 600_000, f: hashes_and_small } },
            Sub { name: "addresses_scripts", kind: Kind::Tape { max_len: 600, quick: 100_000, thorough: 2_000_000, f: addresses_scripts } },
            Sub { name: "pset_parts", kind: Kind::Tape { max_len: 4000, quick: 60_000, thorough: 1_200_000, f: pset_parts } },
            Sub { name: "pset_full", kind: Kind::Tape { max_len: 6000, quick: 20_000, thorough: 400_000, f: pset_full } },
            Sub { name: "display_fromstr", kind: Kind::Tape { max_len: 1500, quick: 75_000, thorough: 1_500_000, f: display_fromstr } },
        ],
        known: vec![Known {
            key: KF_PSET_SERDE,
            what: "no PSET (nor pset::Global) deserializes from its own JSON or CBOR: the flattened transaction data and the \
                   global map both write a field `version`, the derived deserializer stops with \"duplicate field `version`\"",
            repro: repro_pset_serde,
        },
        Known {
            key: KF_PARITY_JSON,
            what: "a taproot::ControlBlock (and every pset::Input / PSET with tap_scripts) does not deserialize from its own \
                   JSON: output_key_parity is written as a number that secp256k1::Parity's deserializer (visit_u8 only) rejects",
            repro: repro_parity_json,
        },
        Known {
            key: KF_BYTE_MAP_BORROWED,
            what: "a pset::Input with partial_sigs or preimages does not deserialize from its own serde_json::Value (nor from a \
                   reader): serde_utils::btreemap_byte_values reads the hex value as a borrowed &str",
            repro: repro_byte_map_borrowed,
        }],
    }
}
