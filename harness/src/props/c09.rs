//! C09 — multi-party PSET blinding balances for every split and order of blinders.
use crate::refimpl::Variant as _;
use std::collections::{BTreeMap, HashMap};
use std::str::FromStr;

use elements::confidential::{Asset, AssetBlindingFactor, Nonce, Value, ValueBlindingFactor};
use elements::encode::{deserialize, serialize};
use elements::pset::{Input, Output, PartiallySignedTransaction as Pset};
use elements::secp256k1_zkp::{Generator, PedersenCommitment, PublicKey, SecretKey, Tweak, ZERO_TWEAK};
use elements::{bitcoin, AssetId, AssetIssuance, BlindAssetProofs, BlindValueProofs, CtLocation, CtLocationType, OutPoint, Script, Sequence, TxIn, TxInWitness, TxOut, TxOutSecrets, TxOutWitness};
use rand::SeedableRng;
use rand_chacha::ChaCha20Rng;
use serde_json::json;

use crate::engine::*;
use crate::gen::ct::{self, abf_from, vbf_from};
use crate::gen::ext_g3 as ext;
use crate::gen::{self, pool, secp};
use crate::{ensure, ensure_eq};

struct OutSpec {
    asset: AssetId,
    value: u64,
    /// Some(party) = blinded by that party
    owner: Option<usize>,
    fee: bool,
    receiver: Option<SecretKey>,
}

pub struct Case {
    pset: Pset,
    utxos: Vec<TxOut>,
    /// per party: input index -> secrets
    secrets: Vec<HashMap<usize, TxOutSecrets>>,
    outs: Vec<OutSpec>,
    n_assets: usize,
    /// shapes for the histogram
    shapes: Vec<&'static str>,
    n_issuances: usize,
    seeds: Vec<[u8; 32]>,
}

fn amount(t: &mut Tape) -> u64 {
    // keep per-asset sums far below 2^64
    (ct::gen_amount(t) & ((1 << 50) - 1)).max(1)
}

fn split(t: &mut Tape, total: u64, parts: usize) -> Vec<u64> {
    let mut out = Vec::new();
    let mut rest = total;
    for k in 0..parts {
        let remaining = (parts - k - 1) as u64;
        if remaining == 0 {
            out.push(rest);
        } else {
            let max = rest - remaining;
            let v = (1 + ((u128::from(t.u64()) * u128::from(max)) >> 64) as u64).clamp(1, max);
            out.push(v);
            rest -= v;
        }
    }
    out
}

struct Iss {
    nonce: Option<Tweak>,
    entropy: [u8; 32],
    amount: Option<u64>,
    keys: Option<u64>,
    asset_id: AssetId,
    token_id: AssetId,
}

struct InSpec {
    party: usize,
    sec: TxOutSecrets,
    utxo: TxOut,
    outpoint: OutPoint,
    iss: Option<Iss>,
}

fn gen_case(t: &mut Tape) -> Case {
    let p = pool();
    let s = secp();
    let k = 1 + t.below(4);
    let n_assets = 1 + t.below(3);
    let mut shapes: Vec<&'static str> = Vec::new();
    // ---- inputs: 1..4 per party, every form of spent output, any number of issuances
    let mut ins: Vec<InSpec> = Vec::new();
    for party in 0..k {
        let n_in = match t.below(8) {
            0..=3 => 1,
            4 | 5 => 2,
            6 => 3,
            _ => 4,
        };
        for _ in 0..n_in {
            let salt = ins.len() as u32;
            let asset = p.assets[t.below(n_assets)];
            let value = amount(t);
            // as in gen::ct: bit 0 = confidential, >= 0xc0 = partially blinded (odd: asset only, even: amount only)
            let form = t.u8();
            let conf = form & 1 == 1;
            let partial = form >= 0xc0;
            let (abf, vbf) = match (conf, partial) {
                (true, false) => (abf_from(t, salt), vbf_from(t, salt)),
                (true, true) => (abf_from(t, salt), ValueBlindingFactor::zero()),
                (false, true) => (AssetBlindingFactor::zero(), vbf_from(t, salt)),
                (false, false) => (AssetBlindingFactor::zero(), ValueBlindingFactor::zero()),
            };
            let gen = if abf == AssetBlindingFactor::zero() { Generator::new_unblinded(s, asset.into_tag()) } else { Generator::new_blinded(s, asset.into_tag(), abf.into_inner()) };
            let utxo = TxOut {
                asset: if abf == AssetBlindingFactor::zero() { Asset::Explicit(asset) } else { Asset::Confidential(gen) },
                value: if vbf == ValueBlindingFactor::zero() { Value::Explicit(value) } else { Value::Confidential(PedersenCommitment::new(s, value, vbf.into_inner(), gen)) },
                nonce: Nonce::Null,
                script_pubkey: ext::std_script_ext(t).0,
                witness: TxOutWitness::empty(),
            };
            if partial {
                shapes.push(if conf { "input:asset-only-blinded" } else { "input:amount-only-blinded" });
            }
            let outpoint = OutPoint { txid: gen::gen_txid(t), vout: gen::gen_vout(t) & 0xffff };
            // explicit, unblinded issuance pseudo-inputs: asset, asset + token, token only, reissuance
            let iss = if t.chance(48) {
                let kind = t.below(4);
                let (amount_, keys, nonce) = match kind {
                    0 => (Some(amount(t)), None, None),
                    1 => (Some(amount(t)), Some(amount(t)), None),
                    2 => (None, Some(amount(t)), None),
                    _ => (Some(amount(t)), None, Some(gen::gen_tweak(t))),
                };
                // a new issuance may spell its zero nonce out
                let nonce = match nonce {
                    None if t.chance(64) => Some(ZERO_TWEAK),
                    n => n,
                };
                let entropy = t.arr32();
                // ids by the harness's own derivation
                let txin = TxIn {
                    previous_output: outpoint,
                    is_pegin: false,
                    script_sig: Script::new(),
                    sequence: Sequence::MAX,
                    asset_issuance: AssetIssuance {
                        asset_blinding_nonce: nonce.unwrap_or(ZERO_TWEAK),
                        asset_entropy: entropy,
                        amount: amount_.map_or(Value::Null, Value::Explicit),
                        inflation_keys: keys.map_or(Value::Null, Value::Explicit),
                    },
                    witness: TxInWitness::empty(),
                };
                let (asset_id, token_id) = ct::ref_issuance_ids(&txin);
                shapes.push(["issuance:asset-only", "issuance:asset+token", "issuance:token-only", "issuance:reissuance"][kind]);
                Some(Iss { nonce, entropy, amount: amount_, keys, asset_id, token_id })
            } else {
                None
            };
            ins.push(InSpec { party, sec: TxOutSecrets::new(asset, abf, value, vbf), utxo, outpoint, iss });
        }
    }
    // ---- ownership is a partition, not a sequence of blocks: shuffle (an exhausted tape keeps the order)
    for i in (1..ins.len()).rev() {
        let j = i - t.below(i + 1);
        ins.swap(i, j);
    }
    if ins.windows(2).any(|w| w[0].party > w[1].party) {
        shapes.push("inputs:interleaved-ownership");
    }
    if ins[0].party != 0 {
        shapes.push("inputs:input-0-not-owned-by-party-0");
    }
    let mut pset = Pset::new_v2();
    let mut utxos = Vec::new();
    let mut secrets: Vec<HashMap<usize, TxOutSecrets>> = vec![HashMap::new(); k];
    let mut totals: BTreeMap<AssetId, u64> = BTreeMap::new();
    let mut holders: BTreeMap<AssetId, Vec<usize>> = BTreeMap::new();
    let mut party_inputs: Vec<Vec<usize>> = vec![Vec::new(); k];
    // (asset, amount, issuing party)
    let mut issued: Vec<(AssetId, u64, usize)> = Vec::new();
    let mut n_issuances = 0;
    for (idx, spec) in ins.iter().enumerate() {
        let mut inp = Input::from_prevout(spec.outpoint);
        inp.witness_utxo = Some(spec.utxo.clone());
        if let Some(iss) = &spec.iss {
            n_issuances += 1;
            inp.issuance_value_amount = iss.amount;
            inp.issuance_inflation_keys = iss.keys;
            inp.issuance_blinding_nonce = iss.nonce;
            inp.issuance_asset_entropy = Some(iss.entropy);
            inp.blinded_issuance = Some(0);
            if let Some(a) = iss.amount {
                issued.push((iss.asset_id, a, spec.party));
            }
            if let Some(kk) = iss.keys {
                issued.push((iss.token_id, kk, spec.party));
            }
        }
        pset.add_input(inp);
        utxos.push(spec.utxo.clone());
        secrets[spec.party].insert(idx, spec.sec);
        party_inputs[spec.party].push(idx);
        *totals.entry(spec.sec.asset).or_insert(0) += spec.sec.value;
        let h = holders.entry(spec.sec.asset).or_default();
        if !h.contains(&spec.party) {
            h.push(spec.party);
        }
    }
    if n_issuances >= 2 {
        shapes.push("issuance:two-or-more-issuing-inputs");
    }
    // ---- outputs: every party gets at least one blinded output, of an asset it holds
    let mut guaranteed: BTreeMap<AssetId, Vec<usize>> = BTreeMap::new();
    for party in 0..k {
        let mine: Vec<AssetId> = holders.iter().filter(|(_, h)| h.contains(&party)).map(|(a, _)| *a).collect();
        let a = mine[t.below(mine.len())];
        guaranteed.entry(a).or_default().push(party);
    }
    // now and then one holder receives many outputs
    let fan_out = t.chance(48);
    let mut outs: Vec<OutSpec> = Vec::new();
    for (asset, total) in &totals {
        let g = guaranteed.get(asset).cloned().unwrap_or_default();
        let h = &holders[asset];
        let room = total.saturating_sub(g.len() as u64).min(if fan_out { 4 } else { 3 }) as usize;
        let extras = if fan_out { room } else { t.below(room + 1) };
        // an asset nobody is guaranteed an output of must still be spent somewhere
        let extras = if g.is_empty() && extras == 0 { 1 } else { extras };
        let parts = split(t, *total, g.len() + extras);
        for (i, v) in parts.into_iter().enumerate() {
            if i < g.len() {
                outs.push(OutSpec { asset: *asset, value: v, owner: Some(g[i]), fee: false, receiver: None });
            } else if fan_out && t.chance(192) {
                outs.push(OutSpec { asset: *asset, value: v, owner: Some(h[0]), fee: false, receiver: None });
            } else {
                match t.below(3) {
                    0 => outs.push(OutSpec { asset: *asset, value: v, owner: Some(h[t.below(h.len())]), fee: false, receiver: None }),
                    1 => outs.push(OutSpec { asset: *asset, value: v, owner: None, fee: true, receiver: None }),
                    _ => outs.push(OutSpec { asset: *asset, value: v, owner: None, fee: false, receiver: None }),
                }
            }
        }
    }
    // issued assets and tokens: blinded by the issuing party, left explicit, or paid as fee
    for (asset, a, party) in &issued {
        let n_parts = 1 + t.below((*a).min(3) as usize);
        for v in split(t, *a, n_parts) {
            match t.below(4) {
                0 => {
                    outs.push(OutSpec { asset: *asset, value: v, owner: None, fee: false, receiver: None });
                    shapes.push("issued-asset:explicit-output");
                }
                1 => {
                    outs.push(OutSpec { asset: *asset, value: v, owner: None, fee: true, receiver: None });
                    shapes.push("issued-asset:fee-output");
                }
                _ => {
                    outs.push(OutSpec { asset: *asset, value: v, owner: Some(*party), fee: false, receiver: None });
                    shapes.push("issued-asset:blinded-by-issuer");
                }
            }
        }
    }
    for i in (1..outs.len()).rev() {
        let j = t.below(i + 1);
        outs.swap(i, j);
    }
    for o in outs.iter_mut() {
        let spk = if o.fee {
            Script::new()
        } else if o.owner.is_none() && t.chance(40) {
            shapes.push("explicit-output:burn-script");
            ext::burn_script(t).0
        } else {
            // a blinded output needs a script an address stands for (non-last blinding goes through Address)
            let (spk, new_shape) = ext::std_script_ext(t);
            if new_shape && o.owner.is_some() {
                shapes.push("blinded-output:p2wsh-or-v1plus-script");
            }
            spk
        };
        let mut out = Output::new_explicit(spk, o.value, o.asset, None);
        if let Some(party) = o.owner {
            let sk = p.seckeys[t.below(p.seckeys.len())];
            o.receiver = Some(sk);
            out.blinding_key = Some(bitcoin::PublicKey { inner: PublicKey::from_secret_key(secp(), &sk), compressed: true });
            let mine = &party_inputs[party];
            let pick = t.below(mine.len());
            if pick > 0 {
                shapes.push("blinder-index:not-the-party's-first-input");
            }
            out.blinder_index = Some(mine[pick] as u32);
        }
        pset.add_output(out);
    }
    // distinct RNG seeds per party even on an exhausted tape (equal seeds would make two parties draw
    // the same blinding factors and publish the same scalar, which real blinders do not)
    let seeds = (0..k + 1).map(|i| ct::fresh_scalar(t, 5000 + i as u32)).collect();
    // other people's records travel with the PSET: a foreign proprietary pair in the global map, sometimes of
    // exactly the shape of a published scalar (subtype 0, 32 bytes of key data, empty value) under another prefix
    if t.chance(48) {
        let prefix: Vec<u8> = t.choose(&[&b"pse"[..], &b"psett"[..], &b"vendor"[..], &b""[..]]).to_vec();
        let key = elements::pset::raw::ProprietaryKey { prefix, subtype: 0, key: t.bytes(32) };
        pset.global.proprietary.insert(key, vec![]);
        shapes.push("global:foreign-record-shaped-like-a-scalar");
    }
    shapes.sort_unstable();
    shapes.dedup();
    Case { pset, utxos, secrets, outs, n_assets: totals.len() + issued.len(), shapes, n_issuances, seeds }
}

fn hop(p: &Pset, base64: bool) -> Result<Pset, Failure> {
    if base64 {
        let s = guard::guard("pset.to_string", 0, || p.to_string())?;
        match guard::guard("Pset::from_str", s.len(), || Pset::from_str(&s))? {
            Ok(x) => Ok(x),
            Err(e) => Err(Failure::new(format!("a PSET between two blinding steps does not survive the base64 hop: {}", e))),
        }
    } else {
        let b = guard::guard("serialize", 0, || serialize(p))?;
        match guard::guard("deserialize", b.len(), || deserialize::<Pset>(&b))? {
            Ok(x) => Ok(x),
            Err(e) => Err(Failure::new(format!("a PSET between two blinding steps does not survive the serialization hop: {}", e))),
        }
    }
}

type Factors = BTreeMap<CtLocation, (AssetBlindingFactor, ValueBlindingFactor, SecretKey)>;

/// run one blinding history; returns the final PSET and every reported factor
fn run_order(case: &Case, order: &[usize], hops: &[bool], ctx: &mut Ctx) -> Result<(Pset, Factors), Failure> {
    let mut pset = case.pset.clone();
    let mut all: Factors = BTreeMap::new();
    let last = order[order.len() - 1];
    for (step, &party) in order.iter().enumerate() {
        pset = hop(&pset, hops[step % hops.len()])?;
        let mut rng = ChaCha20Rng::from_seed(case.seeds[party]);
        let is_last = party == last && step + 1 == order.len();
        let r = if is_last {
            guard::guard("blind_last", 0, || pset.blind_last(&mut rng, secp(), &case.secrets[party]))?
        } else {
            guard::guard("blind_non_last", 0, || pset.blind_non_last(&mut rng, secp(), &case.secrets[party]))?
        };
        ctx.eval();
        match r {
            Ok(f) => {
                for (k, v) in f {
                    all.insert(k, v);
                }
            }
            Err(e) => {
                return Err(Failure::new(format!(
                    "{} failed for party {} at step {} of order {:?}: {} ({:?})",
                    if is_last { "blind_last" } else { "blind_non_last" },
                    party,
                    step,
                    order,
                    e,
                    e
                )))
            }
        }
        if !is_last {
            // the statement constrains the final scalar list only; the running count is a statistic
            ctx.class(if pset.global.scalars.len() == step + 1 { "scalars:one-per-non-last-blinder-so-far" } else { "scalars:other-count-after-a-non-last-step" });
        }
    }
    pset = hop(&pset, false)?;
    Ok((pset, all))
}

fn check_final(case: &Case, pset: &Pset, factors: &Factors, ctx: &mut Ctx) -> R {
    ensure!(pset.global.scalars.is_empty(), "scalar list not empty after the last blinder: {}", pset.global.scalars.len());
    for (k, v) in &case.pset.global.proprietary {
        // not part of the statement: shown in the histogram only
        ctx.class(if pset.global.proprietary.get(k) == Some(v) { "global:foreign-record-kept" } else { "outside-statement:global-foreign-record-lost-during-blinding(counted,not-failed)" });
    }
    let tx = match guard::guard("extract_tx", 0, || pset.extract_tx())? {
        Ok(t) => t,
        Err(e) => return Err(Failure::new(format!("extract_tx failed after blinding: {}", e))),
    };
    let v = guard::guard("verify_tx_amt_proofs", 0, || tx.verify_tx_amt_proofs(secp(), &case.utxos))?;
    ctx.eval();
    if let Err(e) = v {
        return Err(Failure::new(format!("the extracted transaction does not pass amount verification: {} ({:?})", e, e)));
    }
    // ... and by the rule itself (Elements VerifyAmounts on the zkp primitives, harness-side issuance ids
    // and domain order: input, its issuance, its token, next input)
    if let Err(e) = ext::ref_verify(&tx, &case.utxos) {
        return Err(Failure::new(format!(
            "the extracted transaction is accepted by verify_tx_amt_proofs but does not pass amount verification as Elements defines it (independent verifier): {}",
            e
        )));
    }
    ctx.eval();
    ensure_eq!(pset.outputs().len(), case.outs.len(), "number of outputs after blinding");
    ensure_eq!(tx.output.len(), case.outs.len(), "number of outputs of the extracted transaction");
    for (j, spec) in case.outs.iter().enumerate() {
        let o = &pset.outputs()[j];
        match spec.receiver {
            None => {
                ensure!(o.amount_comm.is_none() && o.asset_comm.is_none(), "explicit output {} was blinded", j);
                ensure!(tx.output[j].value == Value::Explicit(spec.value) && tx.output[j].asset == Asset::Explicit(spec.asset), "explicit output {} changed", j);
            }
            Some(sk) => {
                ensure!(o.is_fully_blinded(), "marked output {} is not fully blinded", j);
                let un = guard::guard("unblind", 0, || tx.output[j].unblind(secp(), sk))?;
                ctx.eval();
                match un {
                    Ok(s) => {
                        ensure!(s.asset == spec.asset && s.value == spec.value, "output {} unblinds to asset {} value {}, expected {} {}", j, s.asset, s.value, spec.asset, spec.value);
                        if let Some((abf, vbf, _)) = factors.get(&CtLocation { input_index: j, ty: CtLocationType::Input }) {
                            ensure!(s.asset_bf == *abf && s.value_bf == *vbf, "output {}: unblinded factors differ from the ones the blinder reported", j);
                            ensure!(Asset::new_confidential(secp(), spec.asset, *abf) == tx.output[j].asset, "reported abf does not reproduce the asset commitment of output {}", j);
                            ensure!(Value::new_confidential_from_assetid(secp(), spec.value, spec.asset, *vbf, *abf) == tx.output[j].value, "reported vbf does not reproduce the value commitment of output {}", j);
                        } else {
                            // the returned map is not part of this property's statement
                            ctx.class("factors-not-reported-for-a-blinded-output(counted only)");
                        }
                    }
                    Err(e) => return Err(Failure::new(format!("receiver cannot unblind output {}: {}", j, e))),
                }
                // stored explicit-value / explicit-asset proofs
                match (&o.blind_value_proof, &o.blind_asset_proof, o.amount, o.asset, o.amount_comm, o.asset_comm) {
                    (Some(vp), Some(ap), Some(amt), Some(asset), Some(vc), Some(ac)) => {
                        ensure!(amt == spec.value && asset == spec.asset, "explicit amount / asset of output {} changed", j);
                        ensure!(guard::guard("blind_value_proof_verify", 0, || vp.blind_value_proof_verify(secp(), amt, ac, vc))?, "stored blind_value_proof of output {} does not verify", j);
                        ensure!(guard::guard("blind_asset_proof_verify", 0, || ap.blind_asset_proof_verify(secp(), asset, ac))?, "stored blind_asset_proof of output {} does not verify", j);
                        ctx.evals_n(2);
                    }
                    _ => return Err(Failure::new(format!("blinded output {} lacks explicit value / asset proofs or fields", j))),
                }
            }
        }
    }
    Ok(())
}

fn histories(t: &mut Tape, ctx: &mut Ctx) -> R {
    let case = gen_case(t);
    let k = case.secrets.len();
    let mut order: Vec<usize> = (0..k).collect();
    for i in (1..k).rev() {
        let j = t.below(i + 1);
        order.swap(i, j);
    }
    let hops: Vec<bool> = (0..4).map(|_| t.chance(64)).collect();
    // what the case looks like, for failure messages
    let context = |f: Failure, order: &[usize]| -> Failure {
        let owners: Vec<Option<usize>> = (0..case.utxos.len()).map(|i| case.secrets.iter().position(|m| m.contains_key(&i))).collect();
        let outs: Vec<String> = case
            .outs
            .iter()
            .enumerate()
            .map(|(j, o)| format!("{}:{}", j, match (o.owner, o.fee) { (Some(p), _) => format!("blinded-by-{}(index {}, script {:02x?}.. {} bytes)", p, case.pset.outputs()[j].blinder_index.unwrap_or(u32::MAX), case.pset.outputs()[j].script_pubkey.as_bytes().iter().take(2).collect::<Vec<_>>(), case.pset.outputs()[j].script_pubkey.len()), (None, true) => "fee".into(), _ => "explicit".into() }))
            .collect();
        let input_forms: Vec<&str> = case.utxos.iter().map(|u| match (u.asset.v_conf(), u.value.v_conf()) { (true, true) => "conf", (true, false) => "asset-only", (false, true) => "amount-only", _ => "explicit" }).collect();
        let issuing: Vec<usize> = (0..case.utxos.len()).filter(|i| case.pset.inputs()[*i].has_issuance()).collect();
        Failure { msg: clip(format!("{}\n order={:?} owner of each input={:?} input forms={:?} issuing inputs={:?}\n outputs=[{}]\n shapes={:?}", f.msg, order, owners, input_forms, issuing, outs.join(", "), case.shapes)), panic_loc: f.panic_loc }
    };
    let (pset, factors) = run_order(&case, &order, &hops, ctx).map_err(|f| context(f, &order))?;
    check_final(&case, &pset, &factors, ctx).map_err(|f| context(f, &order))?;
    // another permutation of the same case must succeed as well
    if k >= 2 {
        let mut other = order.clone();
        other.rotate_left(1 + t.below(k - 1));
        let (pset2, factors2) = run_order(&case, &other, &hops, ctx).map_err(|f| context(f, &other))?;
        check_final(&case, &pset2, &factors2, ctx).map_err(|f| context(f, &other))?;
        ctx.class("second-permutation");
    }
    let per_party: Vec<usize> = (0..k).map(|p| case.outs.iter().filter(|o| o.owner == Some(p)).count()).collect();
    let nt = (k >= 2 && case.n_assets >= 2) || k >= 3 || per_party.iter().any(|n| *n >= 2);
    ctx.class(&format!("parties:{}", k));
    ctx.class(&format!("assets:{}", case.n_assets.min(4)));
    ctx.class(&format!("inputs:{}", match case.utxos.len() { 1 => "1", 2 => "2", 3..=4 => "3-4", 5..=8 => "5-8", _ => "9+" }));
    if case.n_issuances > 0 {
        ctx.class("with-issuance");
    }
    for sh in &case.shapes {
        ctx.class(sh);
    }
    if k >= 2 {
        if per_party[order[k - 1]] >= 3 {
            ctx.class("last-blinder:>=3-outputs");
        }
        if order[..k - 1].iter().any(|p| per_party[*p] >= 2) {
            ctx.class("non-last-blinder:>=2-outputs");
        }
    } else if per_party[0] >= 3 {
        ctx.class("single-blinder:>=3-outputs");
    }
    if nt {
        ctx.nontrivial(&(serialize(&case.pset), order.clone()));
    }
    let cls = format!("history:parties{}", k);
    if ctx.wants_sample(&cls) {
        ctx.sample(&cls, || json!({"parties": k, "order": order, "base64_hops": hops, "inputs": case.utxos.len(),
            "outputs": case.outs.iter().map(|o| json!({"value": o.value, "blinded_by": o.owner, "fee": o.fee})).collect::<Vec<_>>(),
            "owner_of_input": (0..case.utxos.len()).map(|i| case.secrets.iter().position(|m| m.contains_key(&i))).collect::<Vec<_>>(),
            "issuances": case.n_issuances, "shapes": case.shapes.clone()}));
    }
    Ok(())
}

pub fn property() -> Property {
    Property {
        id: "C09",
        rule: "histories: 1..4 parties, each owning 1..4 inputs in ANY positions (tape shuffle of the input list; ownership \
               interleaved, input 0 not necessarily party 0's) over 1..3 assets; spent outputs explicit, confidential or \
               partially blinded (asset only / amount only) with the owner knowing the secrets; any number of inputs carry an \
               explicit unblinded issuance: asset only, asset + inflation keys, keys only, or a reissuance (non-zero nonce), ids \
               by the harness's own derivation; per-asset totals split into outputs: >=1 blinded output per party of an asset \
               it holds plus extra blinded (assigned by blinder index - any of the party's inputs - to any holder of that \
               asset; now and then one holder gets up to 4 more), explicit (also on OP_RETURN / oversize scripts) and fee \
               outputs; issued assets and tokens go to outputs blinded by the issuer, explicit outputs or fees; blinded \
               outputs on p2pkh / p2sh / v0 20+32 / v1 2..40 bytes / v2..v16 scripts; tape order; amounts balance per asset \
               globally but not per party. History = a tape permutation of the parties, all but the last running \
               blind_non_last with only their own secrets, the last blind_last, with a binary or base64 serialize/deserialize \
               hop before every step and after the last; a second rotation of the same case is run too. Oracle: every step \
               Ok; finally scalars empty, every marked output fully blinded, extract_tx().verify_tx_amt_proofs(utxos) Ok AND \
               the harness's own amount verifier Ok, each output unblinds with its receiver key to (asset, value), reported \
               factors (where reported) reproduce the commitments, stored blind_value_proof / blind_asset_proof verify. The \
               number of scalars between steps is only counted. Non-trivial: >=2 parties and >=2 assets, or >=3 parties, or a \
               party with >=2 outputs; distinct by (initial PSET, order).",
        assumptions: &[
            "outputs are only assigned to parties holding an input of that asset, and every party blinds at least one output (the statement's precondition)",
            "secp256k1-zkp is the trusted base",
        ],
        subs: vec![Sub { name: "histories", kind: Kind::Tape { max_len: 3000, quick: 1_500, thorough: 60_000, f: histories } }],
        known: vec![],
    }
}
