//! C09 — multi-party PSET blinding balances for every split and order of blinders.
use std::collections::{BTreeMap, HashMap};
use std::str::FromStr;

use elements::confidential::{Asset, AssetBlindingFactor, Nonce, Value, ValueBlindingFactor};
use elements::encode::{deserialize, serialize};
use elements::pset::{Input, Output, PartiallySignedTransaction as Pset};
use elements::secp256k1_zkp::{PublicKey, SecretKey};
use elements::{bitcoin, AssetId, BlindAssetProofs, BlindValueProofs, CtLocation, CtLocationType, OutPoint, Script, TxOut, TxOutSecrets, TxOutWitness};
use rand::SeedableRng;
use rand_chacha::ChaCha20Rng;
use serde_json::json;

use crate::engine::*;
use crate::gen::ct::{self, abf_from, vbf_from};
use crate::gen::{self, pool, secp};
use crate::{ensure, ensure_eq};

struct OutSpec {
    asset: AssetId,
    value: u64,
    /// Some(party) = blinded by that party
    owner: Option<usize>,
    fee: bool,
    receiver: Option<SecretKey>,
}

pub struct Case {
    pset: Pset,
    utxos: Vec<TxOut>,
    /// per party: input index -> secrets
    secrets: Vec<HashMap<usize, TxOutSecrets>>,
    outs: Vec<OutSpec>,
    n_assets: usize,
    has_issuance: bool,
    seeds: Vec<[u8; 32]>,
}

fn amount(t: &mut Tape) -> u64 {
    // keep per-asset sums far below 2^64
    (ct::gen_amount(t) & ((1 << 50) - 1)).max(1)
}

fn split(t: &mut Tape, total: u64, parts: usize) -> Vec<u64> {
    let mut out = Vec::new();
    let mut rest = total;
    for k in 0..parts {
        let remaining = (parts - k - 1) as u64;
        if remaining == 0 {
            out.push(rest);
        } else {
            let max = rest - remaining;
            let v = (1 + ((u128::from(t.u64()) * u128::from(max)) >> 64) as u64).clamp(1, max);
            out.push(v);
            rest -= v;
        }
    }
    out
}

fn gen_case(t: &mut Tape) -> Case {
    let p = pool();
    let k = 1 + t.below(4);
    let n_assets = 1 + t.below(3);
    let mut pset = Pset::new_v2();
    let mut utxos = Vec::new();
    let mut secrets: Vec<HashMap<usize, TxOutSecrets>> = vec![HashMap::new(); k];
    // (asset -> total), (asset -> holders)
    let mut totals: BTreeMap<AssetId, u64> = BTreeMap::new();
    let mut holders: BTreeMap<AssetId, Vec<usize>> = BTreeMap::new();
    let mut party_inputs: Vec<Vec<usize>> = vec![Vec::new(); k];
    let mut has_issuance = false;
    let mut issued: Vec<(AssetId, u64, usize)> = Vec::new();
    for party in 0..k {
        let n_in = 1 + t.below(2);
        for _ in 0..n_in {
            let idx = utxos.len();
            let asset = p.assets[t.below(n_assets)];
            let value = amount(t);
            let conf = t.chance(170);
            let (abf, vbf) = if conf { (abf_from(t, idx as u32), vbf_from(t, idx as u32)) } else { (AssetBlindingFactor::zero(), ValueBlindingFactor::zero()) };
            let utxo = if conf {
                TxOut {
                    asset: Asset::new_confidential(secp(), asset, abf),
                    value: Value::new_confidential_from_assetid(secp(), value, asset, vbf, abf),
                    nonce: Nonce::Null,
                    script_pubkey: ct::std_script(t),
                    witness: TxOutWitness::empty(),
                }
            } else {
                TxOut { asset: Asset::Explicit(asset), value: Value::Explicit(value), nonce: Nonce::Null, script_pubkey: ct::std_script(t), witness: TxOutWitness::empty() }
            };
            let mut inp = Input::from_prevout(OutPoint { txid: gen::gen_txid(t), vout: gen::gen_vout(t) & 0xffff });
            inp.witness_utxo = Some(utxo.clone());
            // an explicit, unblinded issuance whose owner receives the issued asset
            if !has_issuance && t.chance(40) {
                has_issuance = true;
                let a = amount(t);
                inp.issuance_value_amount = Some(a);
                inp.issuance_asset_entropy = Some(t.arr32());
                inp.blinded_issuance = Some(0);
                let (asset_id, _) = inp.issuance_ids();
                issued.push((asset_id, a, party));
            }
            pset.add_input(inp);
            utxos.push(utxo);
            secrets[party].insert(idx, TxOutSecrets::new(asset, abf, value, vbf));
            party_inputs[party].push(idx);
            *totals.entry(asset).or_insert(0) += value;
            let h = holders.entry(asset).or_default();
            if !h.contains(&party) {
                h.push(party);
            }
        }
    }
    // every party gets at least one blinded output, of an asset it holds
    let mut guaranteed: BTreeMap<AssetId, Vec<usize>> = BTreeMap::new();
    for party in 0..k {
        let mine: Vec<AssetId> = holders.iter().filter(|(_, h)| h.contains(&party)).map(|(a, _)| *a).collect();
        let a = mine[t.below(mine.len())];
        guaranteed.entry(a).or_default().push(party);
    }
    let mut outs: Vec<OutSpec> = Vec::new();
    for (asset, total) in &totals {
        let g = guaranteed.get(asset).cloned().unwrap_or_default();
        let h = &holders[asset];
        let room = total.saturating_sub(g.len() as u64).min(3) as usize;
        let extras = t.below(room + 1);
        // an asset nobody is guaranteed an output of must still be spent somewhere
        let extras = if g.is_empty() && extras == 0 { 1 } else { extras };
        let parts = split(t, *total, g.len() + extras);
        for (i, v) in parts.into_iter().enumerate() {
            if i < g.len() {
                outs.push(OutSpec { asset: *asset, value: v, owner: Some(g[i]), fee: false, receiver: None });
            } else {
                match t.below(3) {
                    0 => outs.push(OutSpec { asset: *asset, value: v, owner: Some(h[t.below(h.len())]), fee: false, receiver: None }),
                    1 => outs.push(OutSpec { asset: *asset, value: v, owner: None, fee: true, receiver: None }),
                    _ => outs.push(OutSpec { asset: *asset, value: v, owner: None, fee: false, receiver: None }),
                }
            }
        }
    }
    for (asset, a, party) in &issued {
        let parts = if *a >= 2 && t.bool() { split(t, *a, 2) } else { vec![*a] };
        for v in parts {
            outs.push(OutSpec { asset: *asset, value: v, owner: Some(*party), fee: false, receiver: None });
        }
    }
    for i in (1..outs.len()).rev() {
        let j = t.below(i + 1);
        outs.swap(i, j);
    }
    for o in outs.iter_mut() {
        let spk = if o.fee { Script::new() } else { ct::std_script(t) };
        let mut out = Output::new_explicit(spk, o.value, o.asset, None);
        if let Some(party) = o.owner {
            let sk = p.seckeys[t.below(p.seckeys.len())];
            o.receiver = Some(sk);
            out.blinding_key = Some(bitcoin::PublicKey { inner: PublicKey::from_secret_key(secp(), &sk), compressed: true });
            let mine = &party_inputs[party];
            out.blinder_index = Some(mine[t.below(mine.len())] as u32);
        }
        pset.add_output(out);
    }
    // distinct RNG seeds per party even on an exhausted tape (equal seeds would make two parties draw
    // the same blinding factors and publish the same scalar, which real blinders do not)
    let seeds = (0..k + 1).map(|i| ct::fresh_scalar(t, 5000 + i as u32)).collect();
    Case { pset, utxos, secrets, outs, n_assets: totals.len() + issued.len(), has_issuance, seeds }
}

fn hop(p: &Pset, base64: bool) -> Result<Pset, Failure> {
    if base64 {
        let s = guard::guard("pset.to_string", 0, || p.to_string())?;
        match guard::guard("Pset::from_str", s.len(), || Pset::from_str(&s))? {
            Ok(x) => Ok(x),
            Err(e) => Err(Failure::new(format!("a PSET between two blinding steps does not survive the base64 hop: {}", e))),
        }
    } else {
        let b = guard::guard("serialize", 0, || serialize(p))?;
        match guard::guard("deserialize", b.len(), || deserialize::<Pset>(&b))? {
            Ok(x) => Ok(x),
            Err(e) => Err(Failure::new(format!("a PSET between two blinding steps does not survive the serialization hop: {}", e))),
        }
    }
}

type Factors = BTreeMap<CtLocation, (AssetBlindingFactor, ValueBlindingFactor, SecretKey)>;

/// run one blinding history; returns the final PSET and every reported factor
fn run_order(case: &Case, order: &[usize], hops: &[bool], ctx: &mut Ctx) -> Result<(Pset, Factors), Failure> {
    let mut pset = case.pset.clone();
    let mut all: Factors = BTreeMap::new();
    let last = order[order.len() - 1];
    for (step, &party) in order.iter().enumerate() {
        pset = hop(&pset, hops[step % hops.len()])?;
        let mut rng = ChaCha20Rng::from_seed(case.seeds[party]);
        let is_last = party == last && step + 1 == order.len();
        let r = if is_last {
            guard::guard("blind_last", 0, || pset.blind_last(&mut rng, secp(), &case.secrets[party]))?
        } else {
            guard::guard("blind_non_last", 0, || pset.blind_non_last(&mut rng, secp(), &case.secrets[party]))?
        };
        ctx.eval();
        match r {
            Ok(f) => {
                for (k, v) in f {
                    all.insert(k, v);
                }
            }
            Err(e) => {
                return Err(Failure::new(format!(
                    "{} failed for party {} at step {} of order {:?}: {} ({:?})",
                    if is_last { "blind_last" } else { "blind_non_last" },
                    party,
                    step,
                    order,
                    e,
                    e
                )))
            }
        }
        if !is_last {
            ensure_eq!(pset.global.scalars.len(), step + 1, "number of published scalars after {} non-last blinders", step + 1);
        }
    }
    pset = hop(&pset, false)?;
    Ok((pset, all))
}

fn check_final(case: &Case, pset: &Pset, factors: &Factors, ctx: &mut Ctx) -> R {
    ensure!(pset.global.scalars.is_empty(), "scalar list not empty after the last blinder: {}", pset.global.scalars.len());
    let tx = match guard::guard("extract_tx", 0, || pset.extract_tx())? {
        Ok(t) => t,
        Err(e) => return Err(Failure::new(format!("extract_tx failed after blinding: {}", e))),
    };
    let v = guard::guard("verify_tx_amt_proofs", 0, || tx.verify_tx_amt_proofs(secp(), &case.utxos))?;
    ctx.eval();
    if let Err(e) = v {
        return Err(Failure::new(format!("the extracted transaction does not pass amount verification: {} ({:?})", e, e)));
    }
    for (j, spec) in case.outs.iter().enumerate() {
        let o = &pset.outputs()[j];
        match spec.receiver {
            None => {
                ensure!(o.amount_comm.is_none() && o.asset_comm.is_none(), "explicit output {} was blinded", j);
                ensure!(tx.output[j].value == Value::Explicit(spec.value) && tx.output[j].asset == Asset::Explicit(spec.asset), "explicit output {} changed", j);
            }
            Some(sk) => {
                ensure!(o.is_fully_blinded(), "marked output {} is not fully blinded", j);
                let un = guard::guard("unblind", 0, || tx.output[j].unblind(secp(), sk))?;
                ctx.eval();
                match un {
                    Ok(s) => {
                        ensure!(s.asset == spec.asset && s.value == spec.value, "output {} unblinds to asset {} value {}, expected {} {}", j, s.asset, s.value, spec.asset, spec.value);
                        if let Some((abf, vbf, _)) = factors.get(&CtLocation { input_index: j, ty: CtLocationType::Input }) {
                            ensure!(s.asset_bf == *abf && s.value_bf == *vbf, "output {}: unblinded factors differ from the ones the blinder reported", j);
                            ensure!(Asset::new_confidential(secp(), spec.asset, *abf) == tx.output[j].asset, "reported abf does not reproduce the asset commitment of output {}", j);
                            ensure!(Value::new_confidential_from_assetid(secp(), spec.value, spec.asset, *vbf, *abf) == tx.output[j].value, "reported vbf does not reproduce the value commitment of output {}", j);
                        } else {
                            return Err(Failure::new(format!("no blinding factors were reported for output {}", j)));
                        }
                    }
                    Err(e) => return Err(Failure::new(format!("receiver cannot unblind output {}: {}", j, e))),
                }
                // stored explicit-value / explicit-asset proofs
                match (&o.blind_value_proof, &o.blind_asset_proof, o.amount, o.asset, o.amount_comm, o.asset_comm) {
                    (Some(vp), Some(ap), Some(amt), Some(asset), Some(vc), Some(ac)) => {
                        ensure!(amt == spec.value && asset == spec.asset, "explicit amount / asset of output {} changed", j);
                        ensure!(guard::guard("blind_value_proof_verify", 0, || vp.blind_value_proof_verify(secp(), amt, ac, vc))?, "stored blind_value_proof of output {} does not verify", j);
                        ensure!(guard::guard("blind_asset_proof_verify", 0, || ap.blind_asset_proof_verify(secp(), asset, ac))?, "stored blind_asset_proof of output {} does not verify", j);
                        ctx.evals_n(2);
                    }
                    _ => return Err(Failure::new(format!("blinded output {} lacks explicit value / asset proofs or fields", j))),
                }
            }
        }
    }
    Ok(())
}

fn histories(t: &mut Tape, ctx: &mut Ctx) -> R {
    let case = gen_case(t);
    let k = case.secrets.len();
    let mut order: Vec<usize> = (0..k).collect();
    for i in (1..k).rev() {
        let j = t.below(i + 1);
        order.swap(i, j);
    }
    let hops: Vec<bool> = (0..4).map(|_| t.chance(64)).collect();
    let (pset, factors) = run_order(&case, &order, &hops, ctx)?;
    check_final(&case, &pset, &factors, ctx)?;
    // another permutation of the same case must succeed as well
    if k >= 2 {
        let mut other = order.clone();
        other.rotate_left(1 + t.below(k - 1));
        let (pset2, factors2) = run_order(&case, &other, &hops, ctx)?;
        check_final(&case, &pset2, &factors2, ctx)?;
        ctx.class("second-permutation");
    }
    let per_party: Vec<usize> = (0..k).map(|p| case.outs.iter().filter(|o| o.owner == Some(p)).count()).collect();
    let nt = (k >= 2 && case.n_assets >= 2) || k >= 3 || per_party.iter().any(|n| *n >= 2);
    ctx.class(&format!("parties:{}", k));
    ctx.class(&format!("assets:{}", case.n_assets.min(4)));
    if case.has_issuance {
        ctx.class("with-issuance");
    }
    if nt {
        ctx.nontrivial(&(serialize(&case.pset), order.clone()));
    }
    let cls = format!("history:parties{}", k);
    if ctx.wants_sample(&cls) {
        ctx.sample(&cls, || json!({"parties": k, "order": order, "base64_hops": hops, "inputs": case.utxos.len(),
            "outputs": case.outs.iter().map(|o| json!({"value": o.value, "blinded_by": o.owner, "fee": o.fee})).collect::<Vec<_>>(),
            "issuance": case.has_issuance}));
    }
    Ok(())
}

pub fn property() -> Property {
    Property {
        id: "C09",
        rule: "histories: 1..4 parties, each owning 1..2 inputs (confidential with known secrets, or explicit) over 1..3 assets \
               (+ optional explicit unblinded issuance whose owner receives the issued asset); per-asset totals split into \
               outputs: >=1 blinded output per party of an asset it holds plus extra blinded (assigned by blinder index to any \
               holder of that asset), explicit and fee outputs, tape order; amounts balance per asset globally but not per \
               party. History = a tape permutation of the parties, all but the last running blind_non_last with only their own \
               secrets, the last blind_last, with a binary or base64 serialize/deserialize hop before every step and after \
               the last; a second rotation of the same case is run too. Oracle: every step Ok; #scalars == #non-last blinders \
               done; finally scalars empty, every marked output fully blinded, extract_tx().verify_tx_amt_proofs(utxos) Ok, \
               each output unblinds with its receiver key to (asset, value), reported factors reproduce the commitments, \
               stored blind_value_proof / blind_asset_proof verify. Non-trivial: >=2 parties and >=2 assets, or >=3 parties, \
               or a party with >=2 outputs; distinct by (initial PSET, order).",
        assumptions: &[
            "outputs are only assigned to parties holding an input of that asset, and every party blinds at least one output (the statement's precondition)",
            "secp256k1-zkp is the trusted base",
        ],
        subs: vec![Sub { name: "histories", kind: Kind::Tape { max_len: 3000, quick: 1_500, thorough: 60_000, f: histories } }],
        known: vec![],
    }
}
