//! C06 — addresses round-trip through text, are canonical, and name exactly one network.
use std::str::FromStr;

use elements::address::Payload;
use elements::bitcoin::bech32::Fe32;
use elements::hashes::Hash as _;
use elements::schnorr::TweakedPublicKey;
use elements::secp256k1_zkp::{PublicKey, Scalar, SecretKey, XOnlyPublicKey};
use elements::taproot::TapNodeHash;
use elements::{Address, AddressParams, PubkeyHash, Script, ScriptHash};
use serde_json::json;

use crate::engine::*;
use crate::gen::{self, pool, secp};
use crate::refimpl::addr::{self as ra, RefAddr, RefPayload, NETS};
use crate::refimpl::sha256::{sha256, tagged};
use crate::{ensure, ensure_eq};

pub const KF_BLINDED_SHORT: &str = "blinded-segwit-address-accepts-program-shorter-than-2";

/// the library's parameter sets, in the order of `refimpl::addr::NETS`
pub fn lib_params(i: usize) -> &'static AddressParams {
    match i {
        0 => &AddressParams::LIQUID,
        1 => &AddressParams::ELEMENTS,
        _ => &AddressParams::LIQUID_TESTNET,
    }
}

fn harness_bug(msg: String) -> Failure {
    Failure::panic(format!("harness inconsistency: {}", msg), "src/props/c06.rs".into())
}

/// fill the library's public fields from the reference description
pub fn to_lib(a: &RefAddr) -> Result<Address, Failure> {
    let payload = match &a.payload {
        RefPayload::Pkh(h) => Payload::PubkeyHash(<PubkeyHash as elements::bitcoin::hashes::Hash>::from_byte_array(*h)),
        RefPayload::Sh(h) => Payload::ScriptHash(ScriptHash::from_byte_array(*h)),
        RefPayload::Wit { version, program } => Payload::WitnessProgram {
            version: Fe32::try_from(*version).map_err(|_| harness_bug(format!("witness version {}", version)))?,
            program: program.clone(),
        },
    };
    let blinding_pubkey = match &a.blinder {
        None => None,
        Some(b) => Some(PublicKey::from_slice(b).map_err(|_| harness_bug("generated blinder is not a key".into()))?),
    };
    Ok(Address { params: lib_params(a.net), payload, blinding_pubkey })
}

/// read the library's public fields back into the reference description
pub fn from_lib(a: &Address) -> Result<RefAddr, Failure> {
    let net = (0..3).find(|&i| {
        let p = lib_params(i);
        p.p2pkh_prefix == a.params.p2pkh_prefix
            && p.p2sh_prefix == a.params.p2sh_prefix
            && p.blinded_prefix == a.params.blinded_prefix
            && p.bech_hrp == a.params.bech_hrp
            && p.blech_hrp == a.params.blech_hrp
    });
    let Some(net) = net else {
        return Err(Failure::new(format!("address carries parameters of no built-in network: {:?}", a.params)));
    };
    let payload = match &a.payload {
        Payload::PubkeyHash(h) => RefPayload::Pkh(<PubkeyHash as elements::bitcoin::hashes::Hash>::to_byte_array(*h)),
        Payload::ScriptHash(h) => RefPayload::Sh(h.to_byte_array()),
        Payload::WitnessProgram { version, program } => {
            RefPayload::Wit { version: version.to_u8(), program: program.clone() }
        }
    };
    Ok(RefAddr { net, payload, blinder: a.blinding_pubkey.map(|k| k.serialize().to_vec()) })
}

fn describe(a: &RefAddr) -> String {
    let p = match &a.payload {
        RefPayload::Pkh(h) => format!("p2pkh({})", hex(h)),
        RefPayload::Sh(h) => format!("p2sh({})", hex(h)),
        RefPayload::Wit { version, program } => format!("witness(v{}, {} bytes: {})", version, program.len(), hex(program)),
    };
    format!("{} {} blinder={}", NETS[a.net].name, p, a.blinder.as_ref().map_or("none".to_string(), |b| hex(b)))
}

fn class_of(a: &RefAddr) -> String {
    let p = match &a.payload {
        RefPayload::Pkh(_) => "p2pkh".to_string(),
        RefPayload::Sh(_) => "p2sh".to_string(),
        RefPayload::Wit { version: 0, program } => format!("v0/{}", program.len()),
        RefPayload::Wit { version: 1, program } if program.len() == 32 => "v1/32".to_string(),
        RefPayload::Wit { program, .. } => format!(
            "v1+/{}",
            match program.len() {
                2 => "2",
                40 => "40",
                20 | 32 => "20|32",
                _ => "other",
            }
        ),
    };
    format!("{}{}", p, if a.blinder.is_some() { "/blinded" } else { "" })
}

fn nontrivial_addr(a: &RefAddr) -> bool {
    a.blinder.is_some() || matches!(a.payload, RefPayload::Wit { version, .. } if version >= 1)
}

fn lib_from_str(s: &str) -> Result<Result<Address, String>, Failure> {
    guard::guard("Address::from_str", s.len(), || Address::from_str(s).map_err(|e| e.to_string()))
}
fn lib_parse_with(s: &str, net: usize) -> Result<Result<Address, String>, Failure> {
    guard::guard("Address::parse_with_params", s.len(), || {
        Address::parse_with_params(s, lib_params(net)).map_err(|e| e.to_string())
    })
}
fn lib_display(a: &Address) -> Result<String, Failure> {
    guard::guard("Address::to_string", 0, || a.to_string())
}

// ------------------------------------------------------------------ generators

fn gen_blinder(t: &mut Tape) -> Option<Vec<u8>> {
    let p = pool();
    match t.below(4) {
        0 => None,
        1 => Some(p.pubkeys[t.below(p.pubkeys.len())].serialize().to_vec()),
        2 => {
            // key derived from a tape scalar
            let k = match SecretKey::from_slice(&t.arr32()) {
                Ok(sk) => PublicKey::from_secret_key(secp(), &sk),
                Err(_) => p.pubkeys[0],
            };
            Some(k.serialize().to_vec())
        }
        _ => {
            // key from a tape x coordinate and parity (about half of all x are on the curve)
            let mut b = vec![if t.bool() { 3u8 } else { 2 }];
            b.extend_from_slice(&t.arr32());
            match PublicKey::from_slice(&b) {
                Ok(k) => Some(k.serialize().to_vec()),
                Err(_) => Some(p.pubkeys[1].serialize().to_vec()),
            }
        }
    }
}

fn gen_hash20(t: &mut Tape) -> [u8; 20] {
    match t.below(8) {
        0 => [0u8; 20],
        1 => [0xff; 20],
        _ => t.arr20(),
    }
}

fn gen_program(t: &mut Tape, n: usize) -> Vec<u8> {
    match t.below(8) {
        0 => vec![0u8; n],
        1 => vec![0xff; n],
        _ => t.bytes(n),
    }
}

fn gen_v1plus_len(t: &mut Tape) -> usize {
    match t.below(10) {
        0 => 32,
        1 => 2,
        2 => 20,
        3 => 33,
        4 => 40,
        5 => 3,
        6 => 39,
        _ => t.range(2, 40),
    }
}

/// every address of the property's domain
pub fn gen_ref_addr(t: &mut Tape) -> RefAddr {
    let net = t.below(3);
    let payload = match t.below(10) {
        0 => RefPayload::Pkh(gen_hash20(t)),
        1 => RefPayload::Sh(gen_hash20(t)),
        2 => RefPayload::Wit { version: 0, program: gen_program(t, 20) },
        3 => RefPayload::Wit { version: 0, program: gen_program(t, 32) },
        4 => RefPayload::Wit { version: 1, program: gen_program(t, 32) },
        _ => {
            let version = t.range(1, 16) as u8;
            let n = gen_v1plus_len(t);
            RefPayload::Wit { version, program: gen_program(t, n) }
        }
    };
    let blinder = gen_blinder(t);
    RefAddr { net, payload, blinder }
}

/// a segwit address only
pub fn gen_ref_segwit(t: &mut Tape) -> RefAddr {
    let mut a = gen_ref_addr(t);
    if !a.is_segwit() {
        let n = if t.bool() { 32 } else { 20 };
        a.payload = RefPayload::Wit { version: 0, program: gen_program(t, n) };
    }
    a
}

// ------------------------------------------------------------------ oracle for valid addresses

/// payload invariant of the statement for any successfully parsed address, plus the checksum
/// variant of the string it was parsed from
fn check_invariant(s: &str, got: &RefAddr) -> R {
    if let RefPayload::Wit { version, program } = &got.payload {
        ensure!(*version <= 16, "{:?} parsed with witness version {}", s, version);
        ensure!(
            (2..=40).contains(&program.len()),
            "{:?} parsed with a witness program of {} bytes ({})",
            s,
            program.len(),
            describe(got)
        );
        if *version == 0 {
            ensure!(
                program.len() == 20 || program.len() == 32,
                "{:?} parsed as version 0 with a {}-byte program",
                s,
                program.len()
            );
        }
        let Some((hrp, data)) = ra::split_hrp(s) else {
            return Err(Failure::new(format!("{:?} parsed as segwit address but has no separator", s)));
        };
        let vals: Option<Vec<u8>> = data.bytes().map(ra::charset_rev).collect();
        let Some(vals) = vals else {
            return Err(Failure::new(format!("{:?} parsed as segwit address with characters outside the alphabet", s)));
        };
        let mut all = ra::hrp_expand(hrp);
        all.extend_from_slice(&vals);
        let ok = if got.blinder.is_some() {
            ra::blech32_polymod(&all) == if *version == 0 { ra::BLECH32_CONST } else { ra::BLECH32M_CONST }
        } else {
            ra::bech32_polymod(&all) == if *version == 0 { ra::BECH32_CONST } else { ra::BECH32M_CONST }
        };
        ensure!(ok, "{:?} parsed as version {} although its checksum is not of the variant required for that version", s, version);
    }
    Ok(())
}

/// `s` is a valid text form of `want`: every parser agrees, exactly one network accepts it,
/// display gives `canonical`
fn check_parses_as(s: &str, want: &RefAddr, canonical: &str, ctx: &mut Ctx) -> R {
    let parsed = lib_from_str(s)?;
    ctx.eval();
    let a = match parsed {
        Ok(a) => a,
        Err(e) => return Err(Failure::new(format!("from_str rejects {:?} ({}): {}", s, describe(want), e))),
    };
    let got = from_lib(&a)?;
    ensure!(got == *want, "from_str({:?}) = {} but the string encodes {}", s, describe(&got), describe(want));
    check_invariant(s, &got)?;
    let shown = lib_display(&a)?;
    ensure_eq!(shown.as_str(), canonical, "display of the address parsed from {:?} is not the canonical form", s);
    for net in 0..3 {
        let r = lib_parse_with(s, net)?;
        ctx.eval();
        match r {
            Ok(b) => {
                ensure!(
                    net == want.net,
                    "{:?} is an address of {} but also parses under the {} parameters as {}",
                    s,
                    NETS[want.net].name,
                    NETS[net].name,
                    describe(&from_lib(&b)?)
                );
                let gb = from_lib(&b)?;
                ensure!(gb == *want, "parse_with_params({:?}, {}) = {} instead of {}", s, NETS[net].name, describe(&gb), describe(want));
            }
            Err(e) => {
                ensure!(net != want.net, "parse_with_params rejects {:?} under its own network {}: {}", s, NETS[net].name, e);
            }
        }
    }
    Ok(())
}

/// the complete oracle for one valid address given as reference description and library value
fn check_valid(want: &RefAddr, lib: &Address, ctx: &mut Ctx) -> R {
    let refs = want.encode();
    let shown = lib_display(lib)?;
    ctx.eval();
    ensure_eq!(shown, refs, "display of {} differs from the reference encoder", describe(want));
    check_parses_as(&refs, want, &refs, ctx)?;
    if want.is_segwit() {
        let upper = refs.to_ascii_uppercase();
        check_parses_as(&upper, want, &refs, ctx)?;
    }
    let spk = guard::guard("Address::script_pubkey", 0, || lib.script_pubkey().to_bytes())?;
    ensure_eq!(hex(&spk), hex(&want.script()), "script_pubkey of {}", describe(want));
    ctx.class(&format!("valid:{}:{}", NETS[want.net].name, class_of(want)));
    if nontrivial_addr(want) {
        ctx.nontrivial(want);
    }
    Ok(())
}

fn roundtrip(t: &mut Tape, ctx: &mut Ctx) -> R {
    let want = gen_ref_addr(t);
    let lib = to_lib(&want)?;
    if ctx.wants_sample(&class_of(&want)) {
        ctx.sample(&class_of(&want), || json!({"address": describe(&want), "text": want.encode()}));
    }
    check_valid(&want, &lib, ctx)
}

// ------------------------------------------------------------------ constructors

fn constructors(t: &mut Tape, ctx: &mut Ctx) -> R {
    let p = pool();
    let net = t.below(3);
    let params = lib_params(net);
    let blinder = gen_blinder(t);
    let lib_blinder = match &blinder {
        None => None,
        Some(b) => Some(PublicKey::from_slice(b).map_err(|_| harness_bug("blinder".into()))?),
    };
    let inner = match t.below(3) {
        0 => p.pubkeys[t.below(p.pubkeys.len())],
        _ => match SecretKey::from_slice(&t.arr32()) {
            Ok(sk) => PublicKey::from_secret_key(secp(), &sk),
            Err(_) => p.pubkeys[2],
        },
    };
    let script: Script = gen::gen_script(t, false);
    let sb = script.to_bytes();
    let which = t.below(8);
    let (name, lib, payload): (&str, Address, RefPayload) = match which {
        0 => {
            let compressed = !t.chance(96);
            let pk = elements::bitcoin::PublicKey { compressed, inner };
            let ser = if compressed { inner.serialize().to_vec() } else { inner.serialize_uncompressed().to_vec() };
            let a = guard::guard("Address::p2pkh", 0, || Address::p2pkh(&pk, lib_blinder, params))?;
            (if compressed { "p2pkh" } else { "p2pkh-uncompressed" }, a, RefPayload::Pkh(ra::hash160(&ser)))
        }
        1 => {
            let a = guard::guard("Address::p2sh", sb.len(), || Address::p2sh(&script, lib_blinder, params))?;
            ("p2sh", a, RefPayload::Sh(ra::hash160(&sb)))
        }
        2 => {
            let pk = elements::bitcoin::PublicKey { compressed: true, inner };
            let a = guard::guard("Address::p2wpkh", 0, || Address::p2wpkh(&pk, lib_blinder, params))?;
            ("p2wpkh", a, RefPayload::Wit { version: 0, program: ra::hash160(&inner.serialize()).to_vec() })
        }
        3 => {
            let pk = elements::bitcoin::PublicKey { compressed: true, inner };
            let a = guard::guard("Address::p2shwpkh", 0, || Address::p2shwpkh(&pk, lib_blinder, params))?;
            let mut redeem = vec![0x00, 0x14];
            redeem.extend_from_slice(&ra::hash160(&inner.serialize()));
            ("p2shwpkh", a, RefPayload::Sh(ra::hash160(&redeem)))
        }
        4 => {
            let a = guard::guard("Address::p2wsh", sb.len(), || Address::p2wsh(&script, lib_blinder, params))?;
            ("p2wsh", a, RefPayload::Wit { version: 0, program: sha256(&sb).to_vec() })
        }
        5 => {
            let a = guard::guard("Address::p2shwsh", sb.len(), || Address::p2shwsh(&script, lib_blinder, params))?;
            let mut redeem = vec![0x00, 0x20];
            redeem.extend_from_slice(&sha256(&sb));
            ("p2shwsh", a, RefPayload::Sh(ra::hash160(&redeem)))
        }
        6 => {
            // Q = P + H_TapTweak/elements(P || root) G, program = x(Q)
            let (internal, _) = inner.x_only_public_key();
            let root: Option<[u8; 32]> = if t.bool() { Some(t.arr32()) } else { None };
            let mut msg = internal.serialize().to_vec();
            if let Some(r) = &root {
                msg.extend_from_slice(r);
            }
            let tweak = tagged("TapTweak/elements", &msg);
            let Ok(scalar) = Scalar::from_be_bytes(tweak) else {
                ctx.exclude();
                return Ok(());
            };
            let Ok((q, _)) = internal.add_tweak(secp(), &scalar) else {
                ctx.exclude();
                return Ok(());
            };
            let lib_root = root.map(TapNodeHash::from_byte_array);
            let a = guard::guard("Address::p2tr", 0, || Address::p2tr(secp(), internal, lib_root, lib_blinder, params))?;
            (if root.is_some() { "p2tr-with-root" } else { "p2tr-key-only" }, a, RefPayload::Wit { version: 1, program: q.serialize().to_vec() })
        }
        _ => {
            let (x, _): (XOnlyPublicKey, _) = inner.x_only_public_key();
            let a = guard::guard("Address::p2tr_tweaked", 0, || {
                Address::p2tr_tweaked(TweakedPublicKey::new(x), lib_blinder, params)
            })?;
            ("p2tr_tweaked", a, RefPayload::Wit { version: 1, program: x.serialize().to_vec() })
        }
    };
    ctx.eval();
    let want = RefAddr { net, payload, blinder };
    let got = from_lib(&lib)?;
    ensure!(got == want, "Address::{} built {} instead of {}", name, describe(&got), describe(&want));
    ctx.class(&format!("constructor:{}", name));
    if ctx.wants_sample(name) {
        ctx.sample(name, || json!({"constructor": name, "address": describe(&want), "text": want.encode()}));
    }
    check_valid(&want, &lib, ctx)
}

// ------------------------------------------------------------------ near-valid strings

/// What the construction promises about a string
enum Claim {
    /// valid text form of this address
    Valid(RefAddr),
    /// not an address of any network, by construction
    Invalid,
    /// invalid except for a checksum coincidence: the reference parser decides
    Undecided,
}

const FOREIGN_HRPS: [&str; 14] = ["bc", "tb", "bcrt", "e", "l", "xe", "ql", "le", "ext", "exx", "tl", "tlqq", "elq", "lqe"];

fn is_known_byte(b: u8) -> bool {
    NETS.iter().any(|n| b == n.p2pkh || b == n.p2sh || b == n.blinded)
}

fn maybe_upper(t: &mut Tape, s: String) -> String {
    if t.chance(64) {
        s.to_ascii_uppercase()
    } else {
        s
    }
}

fn valid_key33(t: &mut Tape) -> Vec<u8> {
    gen_blinder(t).unwrap_or_else(|| pool().pubkeys[3].serialize().to_vec())
}

/// 33 bytes that are not the encoding of a curve point
fn invalid_key33(t: &mut Tape) -> Vec<u8> {
    let mut k = vec![0u8; 33];
    k[0] = t.choose(&[2u8, 3, 0, 1, 4, 5, 6, 7, 0xff, 0x82]);
    let x = match t.below(4) {
        0 => [0xffu8; 32], // x >= p
        1 => [0u8; 32],    // x = 0 is not on the curve
        _ => t.arr32(),
    };
    k[1..].copy_from_slice(&x);
    if PublicKey::from_slice(&k).is_ok() {
        k[0] = 4; // a 33-byte string starting with 04 is never a key
    }
    k
}

/// raw segwit-style string: hrp, version, bytes, checksum family and constant chosen freely
fn raw_segwit(hrp: &str, version: u8, bytes: &[u8], long_checksum: bool, modern: bool) -> String {
    let d = ra::segwit_data5(version, bytes);
    if long_checksum {
        ra::blech32_encode_raw(hrp, &d, if modern { ra::BLECH32M_CONST } else { ra::BLECH32_CONST })
    } else {
        ra::bech32_encode_raw(hrp, &d, if modern { ra::BECH32M_CONST } else { ra::BECH32_CONST })
    }
}

fn near_valid(t: &mut Tape, ctx: &mut Ctx) -> R {
    let net = t.below(3);
    let n = &NETS[net];
    let blinded = t.bool();
    let key = valid_key33(t);
    // bytes that go into a segwit string for `program`
    let body = |program: &[u8]| -> Vec<u8> {
        if blinded {
            let mut b = key.clone();
            b.extend_from_slice(program);
            b
        } else {
            program.to_vec()
        }
    };
    let hrp = if blinded { n.blech_hrp } else { n.bech_hrp };
    let bl_tag = if blinded { "blinded" } else { "unblinded" };
    let (class, s, claim): (String, String, Claim) = match t.below(17) {
        0 => {
            // a valid address built by the reference encoders alone (any network: for each
            // network the two others' strings are "the other network's prefix")
            let a = gen_ref_addr(t);
            let s = a.encode();
            let s = if a.is_segwit() { maybe_upper(t, s) } else { s };
            ("valid-reference-built".into(), s, Claim::Valid(a))
        }
        1 => {
            // human-readable part of no network, checksum correct for it
            let mut h = t.choose(&FOREIGN_HRPS).to_string();
            if t.bool() {
                // one character of a real hrp replaced
                let real = t.choose(&[n.bech_hrp, n.blech_hrp]);
                let mut b = real.as_bytes().to_vec();
                let i = t.below(b.len());
                b[i] = t.choose(b"acdefghjklmnpqrstuvwxyz023456789");
                h = String::from_utf8_lossy(&b).to_string();
            }
            if NETS.iter().any(|m| m.bech_hrp == h || m.blech_hrp == h) {
                h.push('z');
            }
            let mut tag = "foreign-hrp";
            if t.chance(96) {
                // a human-readable part that itself contains the separator character: a real
                // hrp, '1', then more characters (the separator is the *last* '1' of the string)
                let real = t.choose(&[n.bech_hrp, n.blech_hrp]);
                let extra = t.below(4);
                let mut tail = String::new();
                for _ in 0..extra {
                    tail.push(t.choose(b"qpzry9x8gf2tvdw0s3jn54khce6mua7l1") as char);
                }
                h = format!("{}1{}", real, tail);
                tag = "hrp-containing-separator";
            }
            let version = t.below(17) as u8;
            let len = if version == 0 { t.choose(&[20usize, 32]) } else { gen_v1plus_len(t) };
            let prog = gen_program(t, len);
            let s = raw_segwit(&h, version, &body(&prog), blinded, version != 0);
            (format!("{}:{}", tag, bl_tag), maybe_upper(t, s), Claim::Undecided)
        }
        2 => {
            // wrong checksum variant for the version
            let version = if t.bool() { 0 } else { t.range(1, 16) as u8 };
            let len = if version == 0 { t.choose(&[20usize, 32]) } else { gen_v1plus_len(t) };
            let prog = gen_program(t, len);
            let s = raw_segwit(hrp, version, &body(&prog), blinded, version == 0);
            (format!("wrong-checksum-variant:{}:{}", if version == 0 { "v0" } else { "v1+" }, bl_tag), maybe_upper(t, s), Claim::Invalid)
        }
        3 => {
            // program too short (version >= 1)
            let version = t.range(1, 16) as u8;
            let len = t.below(2);
            let prog = gen_program(t, len);
            let s = raw_segwit(hrp, version, &body(&prog), blinded, true);
            (format!("program-{}-bytes:{}", len, bl_tag), maybe_upper(t, s), Claim::Invalid)
        }
        4 => {
            // program too long (version >= 1)
            let version = t.range(1, 16) as u8;
            let len = match t.below(4) {
                0 => 41,
                1 => 42,
                2 => t.range(43, 50),
                _ => t.range(51, 75),
            };
            let prog = gen_program(t, len);
            let s = raw_segwit(hrp, version, &body(&prog), blinded, true);
            (format!("program-{}-bytes:{}", if len <= 42 { len.to_string() } else { "43+".into() }, bl_tag), maybe_upper(t, s), Claim::Invalid)
        }
        5 => {
            // version 0 with a length other than 20 / 32
            let mut len = match t.below(8) {
                0 => 0,
                1 => 1,
                2 => 2,
                3 => 19,
                4 => 21,
                5 => 31,
                6 => 33,
                _ => t.range(0, 42),
            };
            if len == 20 || len == 32 {
                len += 1;
            }
            let prog = gen_program(t, len);
            let s = raw_segwit(hrp, 0, &body(&prog), blinded, false);
            (format!("v0-bad-length:{}", bl_tag), maybe_upper(t, s), Claim::Invalid)
        }
        6 => {
            // witness version 17..=31, either checksum variant
            let version = t.range(17, 31) as u8;
            let len = gen_v1plus_len(t);
            let prog = gen_program(t, len);
            let s = raw_segwit(hrp, version, &body(&prog), blinded, t.bool());
            (format!("version-17..31:{}", bl_tag), maybe_upper(t, s), Claim::Invalid)
        }
        7 => {
            // non-zero padding bits, or a whole surplus group when there is no padding
            let version = if t.bool() { 0 } else { t.range(1, 16) as u8 };
            let len = if version == 0 { t.choose(&[20usize, 32]) } else { gen_v1plus_len(t) };
            let bytes = body(&gen_program(t, len));
            let mut d = ra::segwit_data5(version, &bytes);
            let pad = ra::pad_bits(bytes.len());
            let kind = if pad > 0 {
                let bits = 1 + t.below((1usize << pad) - 1) as u8;
                if let Some(l) = d.last_mut() {
                    *l |= bits;
                }
                "nonzero-padding"
            } else {
                d.push(t.below(32) as u8);
                "surplus-group"
            };
            let s = if blinded {
                ra::blech32_encode_raw(hrp, &d, if version == 0 { ra::BLECH32_CONST } else { ra::BLECH32M_CONST })
            } else {
                ra::bech32_encode_raw(hrp, &d, if version == 0 { ra::BECH32_CONST } else { ra::BECH32M_CONST })
            };
            (format!("{}:{}", kind, bl_tag), maybe_upper(t, s), Claim::Invalid)
        }
        8 => {
            // mixed case
            let a = gen_ref_segwit(t);
            let s = a.encode();
            let mut b = s.clone().into_bytes();
            let letters: Vec<usize> = (0..b.len()).filter(|&i| b[i].is_ascii_alphabetic()).collect();
            let sep = s.rfind('1').unwrap_or(0);
            match t.below(4) {
                0 => {
                    let i = letters[t.below(letters.len())];
                    b[i] = b[i].to_ascii_uppercase();
                }
                1 => {
                    b.make_ascii_uppercase();
                    let i = letters[t.below(letters.len())];
                    b[i] = b[i].to_ascii_lowercase();
                }
                2 => b[..sep].make_ascii_uppercase(),
                _ => b[sep..].make_ascii_uppercase(),
            }
            let m = String::from_utf8_lossy(&b).to_string();
            let mixed = m.bytes().any(|c| c.is_ascii_uppercase()) && m.bytes().any(|c| c.is_ascii_lowercase());
            ("mixed-case".into(), m, if mixed { Claim::Invalid } else { Claim::Undecided })
        }
        9 => {
            // blinded segwit address whose key bytes are not a curve point
            let bad = invalid_key33(t);
            let version = if t.bool() { 0 } else { t.range(1, 16) as u8 };
            let len = if version == 0 { t.choose(&[20usize, 32]) } else { gen_v1plus_len(t) };
            let mut bytes = bad;
            bytes.extend_from_slice(&gen_program(t, len));
            let s = raw_segwit(n.blech_hrp, version, &bytes, true, version != 0);
            ("invalid-blinding-key:segwit".into(), maybe_upper(t, s), Claim::Invalid)
        }
        10 => {
            let bad = invalid_key33(t);
            let pre = if t.bool() { n.p2pkh } else { n.p2sh };
            let s = ra::blinded_base58_addr(n.blinded, pre, &bad, &gen_hash20(t));
            ("invalid-blinding-key:base58".into(), s, Claim::Invalid)
        }
        11 => {
            // base58 payload one byte short / long (hash or key), checksum correct
            let pre = if t.bool() { n.p2pkh } else { n.p2sh };
            let hl = t.choose(&[19usize, 21, 20]);
            let hash = t.bytes(hl);
            let s = if blinded {
                let mut k = key.clone();
                if hl == 20 {
                    if t.bool() {
                        k.pop();
                    } else {
                        k.push(t.u8());
                    }
                }
                ra::blinded_base58_addr(n.blinded, pre, &k, &hash)
            } else {
                let alt = if t.bool() { 19 } else { 21 };
                let hash = if hl == 20 { t.bytes(alt) } else { hash };
                ra::base58_addr(pre, &hash)
            };
            (format!("base58-length:{}", bl_tag), s, Claim::Invalid)
        }
        12 => {
            // prefix bytes that belong together on no network
            let other = &NETS[(net + 1 + t.below(2)) % 3];
            let hash = gen_hash20(t);
            let mut unknown = t.u8();
            if is_known_byte(unknown) {
                unknown = 0; // 0 is no Elements prefix
            }
            let (k, s) = match t.below(5) {
                0 => ("unknown-version", ra::base58_addr(unknown, &hash)),
                1 => (
                    "blinded-prefix-of-a-other-version-of-b",
                    ra::blinded_base58_addr(n.blinded, if t.bool() { other.p2pkh } else { other.p2sh }, &key, &hash),
                ),
                2 => ("unknown-blinded-prefix", ra::blinded_base58_addr(unknown, if t.bool() { n.p2pkh } else { n.p2sh }, &key, &hash)),
                3 => ("blinded-unknown-version", ra::blinded_base58_addr(n.blinded, unknown, &key, &hash)),
                _ => ("blinded-prefix-on-20-bytes", ra::base58_addr(n.blinded, &hash)),
            };
            (format!("base58-prefix:{}", k), s, Claim::Invalid)
        }
        13 => {
            // correct payload, wrong base58 checksum
            let mut a = gen_ref_addr(t);
            if a.is_segwit() {
                a.payload = RefPayload::Pkh(gen_hash20(t));
            }
            let m = &NETS[a.net];
            let pre = if matches!(a.payload, RefPayload::Pkh(_)) { m.p2pkh } else { m.p2sh };
            let h = match &a.payload {
                RefPayload::Pkh(h) | RefPayload::Sh(h) => h.to_vec(),
                RefPayload::Wit { .. } => vec![],
            };
            let mut p = match &a.blinder {
                Some(b) => {
                    let mut p = vec![m.blinded, pre];
                    p.extend_from_slice(b);
                    p
                }
                None => vec![pre],
            };
            p.extend_from_slice(&h);
            ("base58-checksum".into(), ra::base58check_bad(&p, t.u8()), Claim::Invalid)
        }
        14 => {
            // checksum family that does not belong to the human-readable part
            let version = if t.bool() { 0 } else { t.range(1, 16) as u8 };
            let len = if version == 0 { t.choose(&[20usize, 32]) } else { gen_v1plus_len(t) };
            let prog = gen_program(t, len);
            let with_key = t.bool();
            let bytes = if with_key {
                let mut b = key.clone();
                b.extend_from_slice(&prog);
                b
            } else {
                prog
            };
            // `blinded` here selects the hrp; the checksum family is the opposite one
            let s = raw_segwit(hrp, version, &bytes, !blinded, version != 0);
            (format!("hrp-{}-with-{}-checksum", bl_tag, if blinded { "6-char" } else { "12-char" }), maybe_upper(t, s), Claim::Undecided)
        }
        15 => {
            // blinded form with fewer than 33 bytes of data
            let version = if t.bool() { 0 } else { t.range(1, 16) as u8 };
            let k = match t.below(6) {
                0 => 0,
                1 => 1,
                2 => 2,
                3 => 20,
                4 => 32,
                _ => t.below(33),
            };
            let s = raw_segwit(n.blech_hrp, version, &key[..k], true, version != 0);
            ("blinded-data-shorter-than-key".into(), maybe_upper(t, s), Claim::Invalid)
        }
        _ => {
            // a valid address of another network re-labelled with this network's prefix but the
            // other network's checksum (hrp swapped after the checksum was computed)
            let other = &NETS[(net + 1 + t.below(2)) % 3];
            let version = if t.bool() { 0 } else { t.range(1, 16) as u8 };
            let len = if version == 0 { t.choose(&[20usize, 32]) } else { gen_v1plus_len(t) };
            let prog = gen_program(t, len);
            let good = raw_segwit(if blinded { other.blech_hrp } else { other.bech_hrp }, version, &body(&prog), blinded, version != 0);
            let tail = ra::split_hrp(&good).map(|(_, d)| d.to_string()).unwrap_or_default();
            let s = format!("{}1{}", hrp, tail);
            (format!("checksum-of-other-network:{}", bl_tag), maybe_upper(t, s), Claim::Undecided)
        }
    };

    judge_string(class, s, claim, ctx)
}

/// Verdict on one constructed string (shared by `near_valid` and `near_valid_ext`): the reference
/// parser is the second opinion on the construction; the library must agree with it under
/// `from_str` and all three parameter sets.
fn judge_string(class: String, s: String, claim: Claim, ctx: &mut Ctx) -> R {
    // the reference parser is the second opinion on every constructed string
    let refv = ra::ref_parse(&s);
    match (&claim, &refv) {
        (Claim::Valid(a), Some(r)) if a == r => {}
        (Claim::Valid(a), _) => return Err(harness_bug(format!("{}: reference parser does not read {:?} as {}", class, s, describe(a)))),
        (Claim::Invalid, Some(r)) => return Err(harness_bug(format!("{}: {:?} is a valid address ({})", class, s, describe(r)))),
        (Claim::Invalid, None) => {}
        (Claim::Undecided, Some(_)) => {
            // checksum coincidence: the string is a real address; it is then treated as one
            ctx.exclude();
        }
        (Claim::Undecided, None) => {}
    }
    ctx.class(&format!("near:{}", class));
    if ctx.wants_sample(&class) {
        ctx.sample(&class, || json!({"class": class, "string": s, "valid": refv.is_some()}));
    }

    match &refv {
        Some(want) => {
            let canonical = if want.is_segwit() { s.to_ascii_lowercase() } else { s.clone() };
            check_parses_as(&s, want, &canonical, ctx)?;
            ctx.nontrivial(&("valid", &s));
        }
        None => {
            // (a panic / allocation failure of the guard is reported together with the string)
            let named = |f: Failure| Failure { msg: clip(format!("{} on the string {:?} [{}]", f.msg, s, class)), panic_loc: f.panic_loc };
            let mut results = vec![("from_str".to_string(), lib_from_str(&s).map_err(named)?)];
            for i in 0..3 {
                results.push((format!("parse_with_params({})", NETS[i].name), lib_parse_with(&s, i).map_err(named)?));
            }
            ctx.evals_n(4);
            let accepted = results.iter().skip(1).filter(|(_, r)| r.is_ok()).count();
            ensure!(accepted <= 1, "{:?} parses under {} networks' parameters", s, accepted);
            for (how, r) in &results {
                if let Ok(a) = r {
                    let got = from_lib(a)?;
                    let short_blinded = got.blinder.is_some()
                        && matches!(&got.payload, RefPayload::Wit { version, program } if *version >= 1 && program.len() < 2);
                    if short_blinded {
                        if ctx.is_known(KF_BLINDED_SHORT) {
                            ctx.class("known:blinded-short-program");
                            continue;
                        }
                        return Err(Failure::new(format!(
                            "{} accepts {:?} [{}], a blinded address with a witness program of {} byte(s): {} (programs must have 2..40 bytes)",
                            how,
                            s,
                            class,
                            match &got.payload {
                                RefPayload::Wit { program, .. } => program.len(),
                                _ => 0,
                            },
                            describe(&got)
                        )));
                    }
                    let also = check_invariant(&s, &got).err().map(|f| format!(" (moreover: {})", f.msg)).unwrap_or_default();
                    return Err(Failure::new(format!(
                        "{} accepts {:?} [{}] as {}; the string is not a valid address of any network{}",
                        how,
                        s,
                        class,
                        describe(&got),
                        also
                    )));
                }
            }
            ctx.nontrivial(&("invalid", &s));
        }
    }
    Ok(())
}

/// Strings the first seventeen classes do not build (a separate sub-check so that the tapes of
/// `near_valid` keep their meaning):
/// * base58check strings whose payload stops right after the prefix byte(s), or inside / right
///   after the blinding key (total payload lengths 0, 1, 2, 3, 34, 35, 36 and a few random ones);
/// * a valid address with one character of junk: white space / NUL / a stray separator in front
///   or behind, or one data character replaced by a character outside the alphabet.
/// None of them is an address; a parser that is "liberal" about them would break the
/// canonical-form clause (display of the parsed value differs from the lower-cased input).
fn near_valid_ext(t: &mut Tape, ctx: &mut Ctx) -> R {
    let net = t.below(3);
    let n = &NETS[net];
    let (class, s, claim): (String, String, Claim) = match t.below(4) {
        0 | 1 => {
            // degenerate base58 payloads
            let key = valid_key33(t);
            let pre = if t.bool() { n.p2pkh } else { n.p2sh };
            let shape = t.below(10);
            let (tag, payload): (&str, Vec<u8>) = match shape {
                0 => ("empty-payload", vec![]),
                1 => ("blinded-prefix-alone", vec![n.blinded]),
                2 => ("version-prefix-alone", vec![pre]),
                3 => ("blinded-prefix+version-prefix", vec![n.blinded, pre]),
                4 => ("blinded-prefix+version-prefix+1-byte", vec![n.blinded, pre, key[0]]),
                5 => ("version-prefix+1..2-bytes", {
                    let mut p = vec![pre];
                    let k = 1 + t.below(2);
                    p.extend_from_slice(&t.bytes(k));
                    p
                }),
                6 | 7 | 8 => {
                    // blinded: cut inside the key (34), right after it (35), one byte into the hash (36)
                    let total = [34usize, 35, 36][shape - 6];
                    let mut p = vec![n.blinded, pre];
                    p.extend_from_slice(&key);
                    p.extend_from_slice(&t.bytes(3));
                    p.truncate(total);
                    (["blinded-payload-34-bytes(key-cut)", "blinded-payload-35-bytes(key-only)", "blinded-payload-36-bytes(key+1)"][shape - 6], p)
                }
                _ => {
                    // any other wrong total length, blinded or not (21 and 55 are the valid ones)
                    let blinded = t.bool();
                    let mut total = t.below(60);
                    let valid_total = if blinded { 55 } else { 21 };
                    if total == valid_total {
                        total += 1;
                    }
                    let mut p = if blinded { vec![n.blinded, pre] } else { vec![pre] };
                    if blinded {
                        p.extend_from_slice(&key);
                    }
                    p.extend_from_slice(&t.bytes(24));
                    p.truncate(total);
                    ("other-wrong-length", p)
                }
            };
            (format!("base58-degenerate:{}", tag), ra::base58check(&payload), Claim::Invalid)
        }
        _ => {
            // a valid address plus one character of junk
            let a = gen_ref_addr(t);
            let good = a.encode();
            let good = if a.is_segwit() { maybe_upper(t, good) } else { good };
            let kind = t.below(4);
            let mut separator_moved = kind == 2;
            let (tag, s) = match kind {
                0 => {
                    let c = t.choose(&[' ', '\n', '\t', '\0', '\r']);
                    ("junk:leading-whitespace-or-nul", format!("{}{}", c, good))
                }
                1 => {
                    let c = t.choose(&[' ', '\n', '\t', '\0', '\r']);
                    ("junk:trailing-whitespace-or-nul", format!("{}{}", good, c))
                }
                2 => ("junk:trailing-separator", format!("{}1", good)),
                _ => {
                    // one character after the prefix replaced by one that is in neither alphabet's
                    // valid set for this form: bech32 excludes 1 b i o, base58 excludes 0 O I l
                    let mut b = good.clone().into_bytes();
                    let start = if a.is_segwit() { good.rfind('1').map_or(0, |p| p + 1) } else { 0 };
                    let i = start + t.below(b.len() - start);
                    let upper = good.bytes().any(|c| c.is_ascii_uppercase()) && a.is_segwit();
                    b[i] = if a.is_segwit() {
                        let c = t.choose(b"bio1");
                        separator_moved = c == b'1';
                        if upper { c.to_ascii_uppercase() } else { c }
                    } else {
                        t.choose(b"0OIl")
                    };
                    (
                        if a.is_segwit() { "junk:segwit-character-outside-alphabet" } else { "junk:base58-character-outside-alphabet" },
                        String::from_utf8_lossy(&b).to_string(),
                    )
                }
            };
            // an added '1' moves the separator: in principle the result could be a base58 string with
            // a valid checksum (2^-32), so the reference parser decides there; the rest is invalid by construction
            (tag.to_string(), s, if separator_moved { Claim::Undecided } else { Claim::Invalid })
        }
    };
    judge_string(class, s, claim, ctx)
}

fn kf_repro() -> bool {
    // blech32m, version 1, the fixed test key followed by an empty program
    let key = unhex("0212bf0ea45b733dfde8ecb5e896306c4165c666c99fc5d1ab887f71393a975cea").unwrap_or_default();
    let s = ra::blech32_encode_raw("lq", &ra::segwit_data5(1, &key), ra::BLECH32M_CONST);
    Address::from_str(&s).is_ok()
}

pub fn property() -> Property {
    Property {
        id: "C06",
        rule: "roundtrip: addresses filled through the public fields: {p2pkh, p2sh, v0/20, v0/32, v1/32, v1..16 with lengths \
               2..40 biased to 2,3,20,32,33,39,40} x hashes/programs (zero, ff, random) x blinder (none / pool key / key from a \
               tape scalar / key from a tape x coordinate) x 3 networks. Oracle: display == string of the harness's own \
               base58check / bech32(m) / blech32(m) encoders (pinned to 32 fixed repository addresses at start-up); from_str \
               of the lower- and (segwit) upper-case string gives the same fields; parse_with_params accepts under exactly \
               the own network; display of the parsed value is the lower-case string; script_pubkey bytes. constructors: \
               p2pkh (both key forms), p2sh, p2wpkh, p2shwpkh, p2wsh, p2shwsh, p2tr (with / without root), p2tr_tweaked \
               against own RIPEMD-160 / SHA-256 / tagged-hash + libsecp tweak-add, then the same round trip. near_valid: 17 \
               classes of strings built only with the reference encoders (see histogram `near:*`); a reference parser \
               gives the verdict (must agree with the construction, else harness error); library must reject every invalid \
               one under from_str and all three parameter sets, accept valid ones under exactly one; every accepted string \
               is checked for the payload invariant and the checksum variant. near_valid_ext (same verdict procedure): \
               base58check strings whose payload ends right after the prefix byte(s) or inside / right after the blinding key \
               (payload lengths 0, 1, 2, 3, 34, 35, 36 and other wrong lengths), and valid addresses with one character of \
               junk (leading / trailing white space or NUL, a trailing separator, one character outside the alphabet). Non-trivial: blinded or version >= 1 valid \
               addresses (distinct by content) and every near-valid string (distinct by string).",
        assumptions: &[
            "libsecp256k1's key parser is the validity predicate for blinding keys",
            "reference encoders are pinned to the fixed addresses of the repository's unit tests and BIP-173/350 vectors at start-up",
        ],
        subs: vec![
            Sub { name: "roundtrip", kind: Kind::Tape { max_len: 160, quick: 600_000, thorough: 9_000_000, f: roundtrip } },
            Sub { name: "constructors", kind: Kind::Tape { max_len: 400, quick: 120_000, thorough: 1_800_000, f: constructors } },
            Sub { name: "near_valid", kind: Kind::Tape { max_len: 240, quick: 1_200_000, thorough: 18_000_000, f: near_valid } },
            Sub { name: "near_valid_ext", kind: Kind::Tape { max_len: 200, quick: 300_000, thorough: 6_000_000, f: near_valid_ext } },
        ],
        known: vec![Known {
            key: KF_BLINDED_SHORT,
            what: "a blech32m string holding a valid blinding key followed by a 0- or 1-byte witness program (version >= 1) parses as an address",
            repro: kf_repro,
        }],
    }
}
