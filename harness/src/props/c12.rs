//! C12 — size, weight, vsize and discount weight equal the real serialized sizes.
use elements::encode::serialize;
use elements::{Block, Transaction};
use serde_json::json;

use crate::engine::*;
use crate::gen::{self, TxOpts};
use crate::refimpl::enc;
use crate::{ensure_eq};

pub fn check_tx_sizes(tx: &Transaction, ctx: &mut Ctx) -> R {
    let full = enc::tx_full(tx);
    let stripped = enc::tx_stripped(tx);
    let lib_len = guard::guard("serialize", 0, || serialize(tx).len())?;
    let size = guard::guard("size", 0, || tx.size())?;
    let weight = guard::guard("weight", 0, || tx.weight())?;
    let vsize = guard::guard("vsize", 0, || tx.vsize())?;
    let dweight = guard::guard("discount_weight", 0, || tx.discount_weight())?;
    let dvsize = guard::guard("discount_vsize", 0, || tx.discount_vsize())?;
    ctx.evals_n(5);
    ensure_eq!(lib_len, full.len(), "serialize length differs from the reference encoding length");
    ensure_eq!(size, full.len(), "size() is not the length of the consensus serialization ({:?})", summary(tx));
    let want_weight = 3 * stripped.len() + full.len();
    ensure_eq!(weight, want_weight, "weight() is not 3*stripped + full ({:?})", summary(tx));
    ensure_eq!(vsize, (want_weight + 3) / 4, "vsize() is not ceil(weight/4)");
    // discount: per output, witness bytes beyond the 2 of an empty witness, 4*24 for a confidential
    // value, 4*32 for a confidential nonce
    let has_wit = enc::tx_has_witness(tx);
    let mut discount = 0usize;
    for o in &tx.output {
        if has_wit {
            let mut w = Vec::new();
            enc::out_witness(&mut w, &o.witness);
            discount += w.len().saturating_sub(2);
        }
        if o.value.is_confidential() {
            discount += 4 * 24;
        }
        if o.nonce.is_confidential() {
            discount += 4 * 32;
        }
    }
    ensure_eq!(dweight, want_weight - discount, "discount_weight() differs from weight - discounts ({:?})", summary(tx));
    ensure_eq!(dvsize, (want_weight - discount + 3) / 4, "discount_vsize() is not ceil(discount_weight/4)");
    // proof length accessors
    for o in &tx.output {
        let rl = o.witness.rangeproof.as_ref().map_or(0, |p| p.serialize().len());
        let sl = o.witness.surjection_proof.as_ref().map_or(0, |p| p.serialize().len());
        ensure_eq!(o.witness.rangeproof_len(), rl, "rangeproof_len");
        ensure_eq!(o.witness.surjectionproof_len(), sl, "surjectionproof_len");
    }
    Ok(())
}

fn summary(tx: &Transaction) -> serde_json::Value {
    json!({
        "inputs": tx.input.len(), "outputs": tx.output.len(), "features": gen::tx_features(tx),
        "script_sig_lens": tx.input.iter().take(6).map(|i| i.script_sig.len()).collect::<Vec<_>>(),
        "spk_lens": tx.output.iter().take(6).map(|o| o.script_pubkey.len()).collect::<Vec<_>>(),
        "in_wit": tx.input.iter().take(6).map(|i| (i.witness.amount_rangeproof.is_some(), i.witness.inflation_keys_rangeproof.is_some(),
               i.witness.script_witness.len(), i.witness.pegin_witness.len())).collect::<Vec<_>>(),
        "out_wit": tx.output.iter().take(6).map(|o| (o.witness.surjection_proof.is_some(), o.witness.rangeproof.is_some())).collect::<Vec<_>>(),
    })
}

fn boundary(n: usize) -> bool {
    matches!(n, 0xfc | 0xfd | 0xfe | 0xffff | 0x10000 | 0x10001)
}

fn tx_shape_sig(tx: &Transaction) -> (bool, bool, bool) {
    let inw = tx.input.iter().any(|i| !i.witness.is_empty());
    let outw = tx.output.iter().any(|o| !o.witness.is_empty());
    let b = boundary(tx.input.len())
        || boundary(tx.output.len())
        || tx.input.iter().any(|i| boundary(i.script_sig.len()) || boundary(i.witness.script_witness.len()) || i.witness.script_witness.iter().any(|w| boundary(w.len())))
        || tx.output.iter().any(|o| boundary(o.script_pubkey.len()));
    (inw, outw, b)
}

fn tx_sizes(t: &mut Tape, ctx: &mut Ctx) -> R {
    let mut o = TxOpts::default();
    // emphasised shapes
    let shape = t.below(6);
    let mut tx = gen::gen_tx(t, &o);
    match shape {
        0 => {
            // no witness at all
            for i in &mut tx.input {
                i.witness = Default::default();
            }
            for x in &mut tx.output {
                x.witness = Default::default();
            }
        }
        1 => {
            for x in &mut tx.output {
                x.witness = Default::default();
            }
        }
        2 => {
            for i in &mut tx.input {
                i.witness = Default::default();
            }
        }
        3 => {
            // exactly one of the two proofs on each output
            for (k, x) in tx.output.iter_mut().enumerate() {
                if k % 2 == 0 {
                    x.witness.rangeproof = None;
                } else {
                    x.witness.surjection_proof = None;
                }
            }
        }
        _ => {}
    }
    o.big = true;
    check_tx_sizes(&tx, ctx)?;
    let (inw, outw, b) = tx_shape_sig(&tx);
    ctx.class(match (inw, outw) {
        (false, false) => "witness:none",
        (true, false) => "witness:inputs-only",
        (false, true) => "witness:outputs-only",
        (true, true) => "witness:both",
    });
    if b {
        ctx.class("length-at-varint-boundary");
    }
    if b || (inw != outw) {
        ctx.nontrivial(&enc::tx_full(&tx));
    }
    let cls = format!("tx:{}{}{}", if inw { "in-wit," } else { "" }, if outw { "out-wit," } else { "" }, if b { "boundary" } else { "" });
    if ctx.wants_sample(&cls) {
        ctx.sample(&cls, || json!({"summary": summary(&tx), "size": tx.size(), "weight": tx.weight(), "discount_weight": tx.discount_weight()}));
    }
    Ok(())
}

fn blocks(t: &mut Tape, ctx: &mut Ctx) -> R {
    let b: Block = gen::gen_block(t);
    let mut want = Vec::new();
    enc::block(&mut want, &b);
    let size = guard::guard("Block::size", 0, || b.size())?;
    let weight = guard::guard("Block::weight", 0, || b.weight())?;
    let lib_len = guard::guard("serialize", 0, || serialize(&b).len())?;
    ctx.evals_n(2);
    ensure_eq!(lib_len, want.len(), "block serialize length differs from reference");
    ensure_eq!(size, want.len(), "Block::size() is not the serialized length (txs={})", b.txdata.len());
    let mut hdr = Vec::new();
    enc::header(&mut hdr, &b.header, false);
    let base = hdr.len() + enc::compact_size_len(b.txdata.len() as u64);
    let txw: usize = b.txdata.iter().map(|tx| 3 * enc::tx_stripped(tx).len() + enc::tx_full(tx).len()).sum();
    ensure_eq!(weight, 4 * base + txw, "Block::weight() is not 4*(header+count) + sum of tx weights (txs={})", b.txdata.len());
    ctx.class(if b.header.is_dynafed() { "block:dynafed" } else { "block:proof" });
    if b.txdata.len() >= 0xfd || b.txdata.iter().any(|t| tx_shape_sig(t).0 != tx_shape_sig(t).1) {
        ctx.nontrivial(&want);
        ctx.class("block:nontrivial");
    }
    if ctx.wants_sample("block") {
        ctx.sample("block", || json!({"txs": b.txdata.len(), "dynafed": b.header.is_dynafed(), "size": size, "weight": weight}));
    }
    Ok(())
}

pub fn property() -> Property {
    Property {
        id: "C12",
        rule: "tx_sizes: tape-generated transactions with emphasised shapes (no witness, inputs-only, outputs-only, one \
               proof of two, counts/lengths at 0xfc/0xfd/0xfe/0xffff/0x10000); oracle: size == len(reference full), weight == \
               3*len(reference stripped)+len(full), vsize == ceil/4, discount_weight == weight - sum over outputs(witness \
               bytes-2, 96 if value confidential, 128 if nonce confidential), discount_vsize == ceil/4, proof length \
               accessors. blocks: size == len(reference block), weight == 4*(header+count)+sum tx weights. Non-trivial: a \
               count or length exactly at a varint boundary, or witness on only one side; distinct by encoding.",
        assumptions: &["reference encoder anchored on the repository vectors"],
        subs: vec![
            Sub { name: "tx_sizes", kind: Kind::Tape { max_len: 3000, quick: 720_000, thorough: 6_000_000, f: tx_sizes } },
            Sub { name: "blocks", kind: Kind::Tape { max_len: 3000, quick: 180_000, thorough: 1_200_000, f: blocks } },
        ],
        known: vec![],
    }
}
