//! C12 — size, weight, vsize and discount weight equal the real serialized sizes.
use crate::refimpl::Variant as _;
use elements::encode::serialize;
use elements::{Block, Transaction};
use serde_json::json;

use crate::engine::*;
use crate::gen::ext_g1 as xg;
use crate::gen::{self, TxOpts};
use crate::refimpl::enc;
use crate::{ensure_eq};

pub fn check_tx_sizes(tx: &Transaction, ctx: &mut Ctx) -> R {
    let full = enc::tx_full(tx);
    let stripped = enc::tx_stripped(tx);
    let lib_len = guard::guard("serialize", 0, || serialize(tx).len())?;
    let size = guard::guard("size", 0, || tx.size())?;
    let weight = guard::guard("weight", 0, || tx.weight())?;
    let vsize = guard::guard("vsize", 0, || tx.vsize())?;
    let dweight = guard::guard("discount_weight", 0, || tx.discount_weight())?;
    let dvsize = guard::guard("discount_vsize", 0, || tx.discount_vsize())?;
    ctx.evals_n(5);
    // attribution (failure path only): when the library's own serialization already differs in length
    // from the reference encoding the encoder is at fault (C01); say whether size() follows it
    let attr = if lib_len != full.len() && size == lib_len {
        " [attribution: size() equals the length of the library's own serialization, which differs from the reference encoding: the encoder is at fault (C01), size() is consistent with it]"
    } else {
        ""
    };
    ensure_eq!(lib_len, full.len(), "serialize length differs from the reference encoding length{}", attr);
    ensure_eq!(size, full.len(), "size() is not the length of the consensus serialization ({:?})", summary(tx));
    let want_weight = 3 * stripped.len() + full.len();
    ensure_eq!(weight, want_weight, "weight() is not 3*stripped + full ({:?})", summary(tx));
    // the deprecated aliases are part of the public API as well
    #[allow(deprecated)]
    let (gs, gw) = guard::guard("get_size/get_weight", 0, || (tx.get_size(), tx.get_weight()))?;
    ensure_eq!(gs, full.len(), "get_size() (deprecated alias) is not the length of the consensus serialization");
    ensure_eq!(gw, want_weight, "get_weight() (deprecated alias) is not 3*stripped + full");
    ensure_eq!(vsize, (want_weight + 3) / 4, "vsize() is not ceil(weight/4)");
    // discount: per output, witness bytes beyond the 2 of an empty witness, 4*24 for a confidential
    // value, 4*32 for a confidential nonce
    let has_wit = enc::tx_has_witness(tx);
    let mut discount = 0usize;
    for o in &tx.output {
        if has_wit {
            let mut w = Vec::new();
            enc::out_witness(&mut w, &o.witness);
            discount += w.len().saturating_sub(2);
        }
        if o.value.v_conf() {
            discount += 4 * 24;
        }
        if o.nonce.v_conf() {
            discount += 4 * 32;
        }
    }
    ensure_eq!(dweight, want_weight - discount, "discount_weight() differs from weight - discounts ({:?})", summary(tx));
    ensure_eq!(dvsize, (want_weight - discount + 3) / 4, "discount_vsize() is not ceil(discount_weight/4)");
    // proof length accessors
    for o in &tx.output {
        let rl = o.witness.rangeproof.as_ref().map_or(0, |p| p.serialize().len());
        let sl = o.witness.surjection_proof.as_ref().map_or(0, |p| p.serialize().len());
        ensure_eq!(o.witness.rangeproof_len(), rl, "rangeproof_len");
        ensure_eq!(o.witness.surjectionproof_len(), sl, "surjectionproof_len");
    }
    Ok(())
}

fn summary(tx: &Transaction) -> serde_json::Value {
    json!({
        "inputs": tx.input.len(), "outputs": tx.output.len(), "features": gen::tx_features(tx),
        "script_sig_lens": tx.input.iter().take(6).map(|i| i.script_sig.len()).collect::<Vec<_>>(),
        "spk_lens": tx.output.iter().take(6).map(|o| o.script_pubkey.len()).collect::<Vec<_>>(),
        "in_wit": tx.input.iter().take(6).map(|i| (i.witness.amount_rangeproof.is_some(), i.witness.inflation_keys_rangeproof.is_some(),
               i.witness.script_witness.len(), i.witness.pegin_witness.len())).collect::<Vec<_>>(),
        "out_wit": tx.output.iter().take(6).map(|o| (o.witness.surjection_proof.is_some(), o.witness.rangeproof.is_some())).collect::<Vec<_>>(),
    })
}

fn boundary(n: usize) -> bool {
    matches!(n, 0xfc | 0xfd | 0xfe | 0xffff | 0x10000 | 0x10001)
}

fn tx_shape_sig(tx: &Transaction) -> (bool, bool, bool) {
    let inw = tx.input.iter().any(|i| !i.witness.is_empty());
    let outw = tx.output.iter().any(|o| !o.witness.is_empty());
    let b = boundary(tx.input.len())
        || boundary(tx.output.len())
        || tx.input.iter().any(|i| boundary(i.script_sig.len()) || boundary(i.witness.script_witness.len()) || i.witness.script_witness.iter().any(|w| boundary(w.len())))
        || tx.output.iter().any(|o| boundary(o.script_pubkey.len()));
    (inw, outw, b)
}

fn apply_shape(tx: &mut Transaction, shape: usize) {
    match shape {
        0 => {
            // no witness at all
            for i in &mut tx.input {
                i.witness = Default::default();
            }
            for x in &mut tx.output {
                x.witness = Default::default();
            }
        }
        1 => {
            for x in &mut tx.output {
                x.witness = Default::default();
            }
        }
        2 => {
            for i in &mut tx.input {
                i.witness = Default::default();
            }
        }
        3 => {
            // exactly one of the two proofs on each output
            for (k, x) in tx.output.iter_mut().enumerate() {
                if k % 2 == 0 {
                    x.witness.rangeproof = None;
                } else {
                    x.witness.surjection_proof = None;
                }
            }
        }
        _ => {}
    }
}

fn tx_sizes(t: &mut Tape, ctx: &mut Ctx) -> R {
    let o = TxOpts::default();
    // emphasised shapes
    let shape = t.below(6);
    let mut tx = gen::gen_tx(t, &o);
    apply_shape(&mut tx, shape);
    check_tx_sizes(&tx, ctx)?;
    let (inw, outw, b) = tx_shape_sig(&tx);
    ctx.class(match (inw, outw) {
        (false, false) => "witness:none",
        (true, false) => "witness:inputs-only",
        (false, true) => "witness:outputs-only",
        (true, true) => "witness:both",
    });
    if b {
        ctx.class("length-at-varint-boundary");
    }
    if b || (inw != outw) {
        ctx.nontrivial(&enc::tx_full(&tx));
    }
    let cls = format!("tx:{}{}{}", if inw { "in-wit," } else { "" }, if outw { "out-wit," } else { "" }, if b { "boundary" } else { "" });
    if ctx.wants_sample(&cls) {
        ctx.sample(&cls, || json!({"summary": summary(&tx), "size": tx.size(), "weight": tx.weight(), "discount_weight": tx.discount_weight()}));
    }
    Ok(())
}

/// `tx_sizes` on transactions with every count class whose elements are varied at every index, with
/// boundary-length proofs (`ext_g1::gen_tx_x`)
fn tx_sizes_big(t: &mut Tape, ctx: &mut Ctx) -> R {
    let o = TxOpts::default();
    let shape = t.below(6);
    let ladder: &[usize] = if ctx.tier == Tier::Thorough { xg::LADDER_INOUT } else { &[1000] };
    let mut tx = xg::gen_tx_x(t, &o, ladder);
    apply_shape(&mut tx, shape);
    check_tx_sizes(&tx, ctx)?;
    let feats = xg::tx_features_x(&tx);
    for f in &feats {
        ctx.class(&format!("x:{}", f));
    }
    let (inw, outw, _) = tx_shape_sig(&tx);
    ctx.class(match (inw, outw) {
        (false, false) => "x:witness:none",
        (true, false) => "x:witness:inputs-only",
        (false, true) => "x:witness:outputs-only",
        (true, true) => "x:witness:both",
    });
    if !feats.is_empty() {
        ctx.nontrivial(&enc::tx_full(&tx));
    }
    Ok(())
}

fn check_block_sizes(b: &Block, ctx: &mut Ctx) -> Result<(usize, usize, Vec<u8>), Failure> {
    let mut want = Vec::new();
    enc::block(&mut want, b);
    let size = guard::guard("Block::size", 0, || b.size())?;
    let weight = guard::guard("Block::weight", 0, || b.weight())?;
    let lib_len = guard::guard("serialize", 0, || serialize(b).len())?;
    ctx.evals_n(2);
    let attr = if lib_len != want.len() && size == lib_len {
        " [attribution: Block::size() equals the length of the library's own serialization, which differs from the reference encoding: the encoder is at fault (C01)]"
    } else {
        ""
    };
    ensure_eq!(lib_len, want.len(), "block serialize length differs from reference{}", attr);
    ensure_eq!(size, want.len(), "Block::size() is not the serialized length (txs={}, header {:?})", b.txdata.len(), xg::header_features_x(&b.header));
    let mut hdr = Vec::new();
    enc::header(&mut hdr, &b.header, false);
    let base = hdr.len() + enc::compact_size_len(b.txdata.len() as u64);
    let txw: usize = b.txdata.iter().map(|tx| 3 * enc::tx_stripped(tx).len() + enc::tx_full(tx).len()).sum();
    ensure_eq!(weight, 4 * base + txw, "Block::weight() is not 4*(header+count) + sum of tx weights (txs={}, header {:?})", b.txdata.len(), xg::header_features_x(&b.header));
    #[allow(deprecated)]
    let (gs, gw) = guard::guard("Block::get_size/get_weight", 0, || (b.get_size(), b.get_weight()))?;
    ensure_eq!(gs, want.len(), "Block::get_size() (deprecated alias) is not the serialized length");
    ensure_eq!(gw, 4 * base + txw, "Block::get_weight() (deprecated alias) is not 4*(header+count) + sum of tx weights");
    Ok((size, weight, want))
}

fn blocks(t: &mut Tape, ctx: &mut Ctx) -> R {
    let b: Block = gen::gen_block(t);
    let (size, weight, want) = check_block_sizes(&b, ctx)?;
    ctx.class(if b.header.is_dynafed() { "block:dynafed" } else { "block:proof" });
    if b.txdata.len() >= 0xfd || b.txdata.iter().any(|t| tx_shape_sig(t).0 != tx_shape_sig(t).1) {
        ctx.nontrivial(&want);
        ctx.class("block:nontrivial");
    }
    if ctx.wants_sample("block") {
        ctx.sample("block", || json!({"txs": b.txdata.len(), "dynafed": b.header.is_dynafed(), "size": size, "weight": weight}));
    }
    Ok(())
}

/// `blocks` with headers whose fields / counts cross 0xfd and 0x10000, transaction counts 0..8, 20,
/// 9..0xfb, 0xfc..0xfe, 1000 (thorough: 0xffff, 0x10000, 0x10001) and witness transactions at
/// every index of a big block (`ext_g1::gen_block_x`)
fn blocks_big(t: &mut Tape, ctx: &mut Ctx) -> R {
    let ladder: &[usize] = if ctx.tier == Tier::Thorough { xg::LADDER_TXS_SIZE_ONLY } else { &[1000] };
    let b: Block = xg::gen_block_x(t, ladder);
    let (size, weight, want) = check_block_sizes(&b, ctx)?;
    let feats = xg::block_features_x(&b);
    for f in &feats {
        ctx.class(&format!("x:{}", f));
    }
    ctx.class(if matches!(b.header.ext, elements::BlockExtData::Dynafed { .. }) { "xblock:dynafed" } else { "xblock:proof" });
    if !feats.is_empty() {
        ctx.nontrivial(&want);
    }
    if ctx.wants_sample("xblock") && !feats.is_empty() {
        ctx.sample("xblock", || json!({"txs": b.txdata.len(), "x_features": feats, "size": size, "weight": weight}));
    }
    Ok(())
}

/// Blocks (built in memory) whose transaction count sits on both sides of every compact-size width:
/// 252 / 253 / 254 and 65534 / 65535 / 65536 / 65537 minimal transactions under a generated header.
fn block_count_boundaries(idx: u64, seed: u64, ctx: &mut Ctx) -> R {
    const COUNTS: [usize; 7] = [252, 253, 254, 65_534, 65_535, 65_536, 65_537];
    let n = COUNTS[idx as usize % COUNTS.len()];
    let bytes = seeded_bytes(seed, idx, 600);
    let mut t = Tape::new(&bytes);
    let header = gen::gen_header(&mut t);
    let tiny = Transaction { version: 2, lock_time: elements::LockTime::ZERO, input: vec![], output: vec![] };
    let mut txdata = vec![tiny; n];
    // a few of them are real transactions, at tape-chosen positions
    for _ in 0..3 {
        let k = t.below(n);
        txdata[k] = gen::gen_tx(&mut t, &TxOpts { max_in: 2, max_out: 2, ..Default::default() });
    }
    let b = Block { header, txdata };
    check_block_sizes(&b, ctx)?;
    ctx.class(&format!("block-count-boundary:{}-transactions", n));
    ctx.nontrivial(&(n, idx));
    if ctx.wants_sample("block-count-boundary") {
        ctx.sample("block-count-boundary", || json!({"transactions": n, "size": b.size(), "weight": b.weight()}));
    }
    Ok(())
}

pub fn property() -> Property {
    Property {
        id: "C12",
        rule: "tx_sizes: tape-generated transactions with emphasised shapes (no witness, inputs-only, outputs-only, one \
               proof of two, counts/lengths at 0xfc/0xfd/0xfe/0xffff/0x10000); oracle: size == len(reference full), weight == \
               3*len(reference stripped)+len(full), vsize == ceil/4, discount_weight == weight - sum over outputs(witness \
               bytes-2, 96 if value confidential, 128 if nonce confidential), discount_vsize == ceil/4, proof length \
               accessors, deprecated aliases get_size / get_weight. tx_sizes_big: the same on transactions with every count \
               class (7..0xfb, 0xfc..0xfe, 0x100.., 1000; thorough 5000) whose inputs / outputs are varied at every index \
               (confidential fields, issuances, proofs, witnesses beyond index 60) and range proofs of exactly \
               0xfc..0x10001 bytes. blocks: size == len(reference block), weight == 4*(header+count)+sum tx weights (and the \
               deprecated aliases). blocks_big: the same with headers whose solution / challenge / parameter scripts / \
               witness items / extension entries and counts cross 0xfd and 0x10000, transaction counts 0..8, 20, 9..0xfb, \
               0xfc..0xfe, 1000 (thorough 0xffff / 0x10000 / 0x10001) and witness transactions at every index of a big block. \
               Non-trivial: a count or length exactly at a varint boundary, or witness on only one side; for the _big \
               sub-checks a count class above 8, a long header field or something non-default at index >= 60; distinct by encoding.",
        assumptions: &["reference encoder anchored on the repository vectors"],
        subs: vec![
            Sub { name: "tx_sizes", kind: Kind::Tape { max_len: 3000, quick: 720_000, thorough: 6_000_000, f: tx_sizes } },
            Sub { name: "blocks", kind: Kind::Tape { max_len: 3000, quick: 180_000, thorough: 1_200_000, f: blocks } },
            Sub { name: "tx_sizes_big", kind: Kind::Tape { max_len: 3000, quick: 40_000, thorough: 1_000_000, f: tx_sizes_big } },
            Sub { name: "blocks_big", kind: Kind::Tape { max_len: 3000, quick: 40_000, thorough: 1_000_000, f: blocks_big } },
            Sub { name: "block_count_boundaries", kind: Kind::Index { count: |t| t.pick(7, 28), exhaustive: false, f: block_count_boundaries } },
        ],
        known: vec![],
    }
}
