//! C11 — asset and token ids follow the issuance derivation in every representation.
use elements::confidential::Value;
use elements::hashes::Hash as _;
use elements::pset::{Input as PsetInput, PartiallySignedTransaction};
use elements::secp256k1_zkp::ZERO_TWEAK;
use elements::{AssetEntropy, AssetId, AssetIssuance, ContractHash, LockTime, OutPoint, Script, Sequence, Transaction, TxIn, TxInWitness};
use serde_json::json;

use crate::engine::*;
use crate::gen;
use crate::refimpl::sha256 as r;
use crate::{ensure, ensure_eq};

pub const KF_PSET_FLAGS: &str = "pset-input-issuance-ids-hash-flag-bits";

fn word(n: u8) -> [u8; 32] {
    let mut a = [0u8; 32];
    a[0] = n;
    a
}
fn ref_entropy(txid: &[u8; 32], vout: u32, contract: &[u8; 32]) -> [u8; 32] {
    let mut b = txid.to_vec();
    b.extend_from_slice(&vout.to_le_bytes());
    r::fast_merkle_root(&[r::sha256d(&b), *contract])
}
fn ref_asset(entropy: &[u8; 32]) -> [u8; 32] {
    r::fast_merkle_root(&[*entropy, word(0)])
}
fn ref_token(entropy: &[u8; 32], blinded: bool) -> [u8; 32] {
    r::fast_merkle_root(&[*entropy, word(if blinded { 2 } else { 1 })])
}
/// reference ids of an input: (asset, token)
fn ref_ids(i: &TxIn) -> ([u8; 32], [u8; 32]) {
    let entropy = if i.asset_issuance.asset_blinding_nonce == ZERO_TWEAK {
        ref_entropy(&i.previous_output.txid.to_byte_array(), i.previous_output.vout, &i.asset_issuance.asset_entropy)
    } else {
        i.asset_issuance.asset_entropy
    };
    (ref_asset(&entropy), ref_token(&entropy, matches!(i.asset_issuance.amount, Value::Confidential(_))))
}

fn gen_input(t: &mut Tape) -> TxIn {
    let kind = t.below(8);
    let null_outpoint = kind == 0;
    let previous_output = if null_outpoint { OutPoint::null() } else { OutPoint { txid: gen::gen_txid(t), vout: gen::gen_vout(t) } };
    let asset_issuance = if null_outpoint {
        AssetIssuance::null()
    } else {
        let mut iss = gen::gen_issuance_nonnull(t);
        if t.chance(30) {
            // both amounts confidential / amount null
            iss.amount = Value::Null;
            iss.inflation_keys = gen::gen_value_nonnull(t);
        }
        iss
    };
    let mut is_pegin = !null_outpoint && t.chance(90);
    if is_pegin && previous_output.vout == 0x3fff_ffff {
        is_pegin = false;
    }
    TxIn { previous_output, is_pegin, script_sig: Script::new(), sequence: Sequence(t.edgy_u32()), asset_issuance, witness: TxInWitness::empty() }
}

fn ids_of(what: &str, f: impl FnOnce() -> (AssetId, AssetId)) -> Result<([u8; 32], [u8; 32]), Failure> {
    let (a, b) = guard::guard(what, 0, f)?;
    Ok((a.to_byte_array(), b.to_byte_array()))
}

fn issuance_null(i: &TxIn) -> bool {
    matches!(i.asset_issuance.amount, Value::Null) && matches!(i.asset_issuance.inflation_keys, Value::Null)
}

fn issuance_ids(t: &mut Tape, ctx: &mut Ctx) -> R {
    let n = 1 + t.below(3);
    let inputs: Vec<TxIn> = (0..n).map(|_| gen_input(t)).collect();
    // (the transaction carries no output: nothing in the statement concerns outputs, and a defect of output
    // extraction is C08's business; the draw that used to follow here was the last one of the tape)
    check_inputs(&inputs, ctx)
}

/// generator of the `issuance_ids_ext` sub-check: adds to `gen_input`
///  * ordinary outpoints WITHOUT an issuance (pegin flag on half of them, index 2^30-1 included),
///  * the null outpoint together with a real issuance / reissuance
fn gen_input_ext(t: &mut Tape) -> TxIn {
    let kind = t.below(16);
    let null_outpoint = kind <= 2;
    let no_issuance = kind == 0 || (3..=8).contains(&kind);
    let previous_output = if null_outpoint {
        OutPoint::null()
    } else {
        let vout = if no_issuance && t.chance(40) { 0x3fff_ffff } else { gen::gen_vout(t) };
        OutPoint { txid: gen::gen_txid(t), vout }
    };
    let asset_issuance = if no_issuance {
        // from_txin keeps neither nonce nor entropy of a null issuance: they have to be zero
        AssetIssuance::null()
    } else {
        let mut iss = gen::gen_issuance_nonnull(t);
        if t.chance(30) {
            iss.amount = Value::Null;
            iss.inflation_keys = gen::gen_value_nonnull(t);
        }
        iss
    };
    let mut is_pegin = !null_outpoint && if no_issuance { t.bool() } else { t.chance(90) };
    if is_pegin && !no_issuance && previous_output.vout == 0x3fff_ffff {
        // index 2^30-1 with BOTH flags is the unrepresentable 0xffffffff
        is_pegin = false;
    }
    TxIn { previous_output, is_pegin, script_sig: Script::new(), sequence: Sequence(t.edgy_u32()), asset_issuance, witness: TxInWitness::empty() }
}

fn issuance_ids_ext(t: &mut Tape, ctx: &mut Ctx) -> R {
    let n = 1 + t.below(3);
    let inputs: Vec<TxIn> = (0..n).map(|_| gen_input_ext(t)).collect();
    check_inputs(&inputs, ctx)?;
    // A PSET input that carries the explicit issuance amount NEXT TO its commitment (what a blinder that keeps
    // the explicit value and its proof leaves behind): the amount of the issuance is the commitment, so the
    // ids of the PSET input and of the input extracted from that PSET are those of a blinded issuance.
    let pl = gen::pool();
    for i in inputs.iter() {
        let conf_amount = matches!(i.asset_issuance.amount, Value::Confidential(_));
        let conf_keys = matches!(i.asset_issuance.inflation_keys, Value::Confidential(_));
        if !(conf_amount || conf_keys) || !t.chance(160) {
            continue;
        }
        let mut pi = guard::guard("Input::from_txin", 0, || PsetInput::from_txin(i.clone()))?;
        let mut what = Vec::new();
        if conf_amount && (!conf_keys || t.chance(176)) {
            pi.issuance_value_amount = Some(t.edgy_u64());
            if t.bool() {
                pi.in_issuance_blind_value_proof = Some(Box::new(pl.rangeproofs[t.below(pl.rangeproofs.len())].clone()));
            }
            what.push("amount");
        }
        if conf_keys && (what.is_empty() || t.chance(176)) {
            pi.issuance_inflation_keys = Some(t.edgy_u64());
            if t.bool() {
                pi.in_issuance_blind_inflation_keys_proof = Some(Box::new(pl.rangeproofs[t.below(pl.rangeproofs.len())].clone()));
            }
            what.push("keys");
        }
        if t.chance(64) {
            pi.blinded_issuance = Some(t.u8());
        }
        let want = ref_ids(i);
        let a = ids_of("pset::Input::issuance_ids", || pi.issuance_ids())?;
        ctx.eval();
        ensure!(
            a == want,
            "pset::Input::issuance_ids changes when the explicit issuance {} is stored next to the commitment: got ({}, {}) want ({}, {}) for {:?}",
            what.join("+"), hex(&a.0), hex(&a.1), hex(&want.0), hex(&want.1), i
        );
        let mut p = PartiallySignedTransaction::new_v2();
        let pi2 = pi.clone();
        guard::guard("add_input", 0, || p.add_input(pi2))?;
        match guard::guard("extract_tx", 0, || p.extract_tx())? {
            Ok(ex) => {
                ensure!(ex.input.len() == 1, "extract_tx of a one-input PSET gives {} inputs", ex.input.len());
                let c = ids_of("TxIn::issuance_ids", || ex.input[0].issuance_ids())?;
                ctx.eval();
                ensure!(
                    c == want,
                    "the input extracted from a PSET whose input holds explicit {} + commitment yields other ids than the PSET input: extracted ({}, {}) pset/reference ({}, {}); extracted input {:?}",
                    what.join("+"), hex(&c.0), hex(&c.1), hex(&want.0), hex(&want.1), ex.input[0]
                );
            }
            Err(e) => return Err(Failure::new(format!("extract_tx failed on a one-input PSET: {}", e))),
        }
        ctx.class(&format!("pset-input:explicit-{}+commitment", what.join("+")));
        ctx.nontrivial(&(hex(&want.0), hex(&want.1), what.join("+"), pi.issuance_value_amount, pi.issuance_inflation_keys));
    }
    Ok(())
}

fn check_inputs(inputs: &[TxIn], ctx: &mut Ctx) -> R {
    let tx = Transaction { version: 2, lock_time: LockTime::ZERO, input: inputs.to_vec(), output: vec![] };
    let pset = guard::guard("from_tx", 0, || PartiallySignedTransaction::from_tx(tx.clone()))?;
    let extracted = guard::guard("extract_tx", 0, || pset.extract_tx())?;
    ensure!(pset.inputs().len() == inputs.len(), "from_tx gives {} PSET inputs for {} transaction inputs", pset.inputs().len(), inputs.len());
    if let Ok(ex) = &extracted {
        ensure!(ex.input.len() == inputs.len(), "extract_tx(from_tx(tx)) has {} inputs, tx has {}", ex.input.len(), inputs.len());
    }
    for (k, i) in inputs.iter().enumerate() {
        let want = ref_ids(i);
        let a = ids_of("TxIn::issuance_ids", || i.issuance_ids())?;
        ctx.eval();
        ensure!(
            a == want,
            "TxIn::issuance_ids differs from the derivation: got ({}, {}) want ({}, {}) for {:?}",
            hex(&a.0), hex(&a.1), hex(&want.0), hex(&want.1), i
        );
        // PSET input built from it
        let pi = guard::guard("Input::from_txin", 0, || PsetInput::from_txin(i.clone()))?;
        let b = ids_of("pset::Input::issuance_ids", || pi.issuance_ids())?;
        ctx.eval();
        if b != want {
            let flagged = i.is_pegin || i.has_issuance();
            if flagged && ctx.is_known(KF_PSET_FLAGS) {
                ctx.class("known:pset-flag-bits");
            } else {
                return Err(Failure::new(format!(
                    "pset::Input::issuance_ids of the PSET input built from a transaction input differs from the input's own ids\n pset=({}, {})\n txin=({}, {})\n input={:?}",
                    hex(&b.0), hex(&b.1), hex(&want.0), hex(&want.1), i
                )));
            }
        }
        // the PSET's own input (from_tx) and the extracted transaction
        let b2 = ids_of("pset::Input::issuance_ids", || pset.inputs()[k].issuance_ids())?;
        if b2 != b {
            return Err(Failure::new("from_tx and Input::from_txin give inputs with different issuance ids".to_string()));
        }
        match &extracted {
            Ok(ex) => {
                let c = ids_of("TxIn::issuance_ids", || ex.input[k].issuance_ids())?;
                ctx.eval();
                ensure!(c == want, "the input of the transaction extracted from the PSET yields different ids ({:?} vs {:?})", ex.input[k], i);
            }
            Err(e) => return Err(Failure::new(format!("extract_tx failed on a PSET made by from_tx: {}", e))),
        }
        // constructors
        let nonce_zero = i.asset_issuance.asset_blinding_nonce == ZERO_TWEAK;
        if nonce_zero {
            let contract = ContractHash::from_byte_array(i.asset_issuance.asset_entropy);
            let ent = guard::guard("generate_asset_entropy", 0, || AssetId::generate_asset_entropy(i.previous_output, contract))?;
            let want_ent = ref_entropy(&i.previous_output.txid.to_byte_array(), i.previous_output.vout, &i.asset_issuance.asset_entropy);
            ensure_eq!(hex(&ent.to_byte_array()), hex(&want_ent), "generate_asset_entropy");
            let ni = guard::guard("new_issuance", 0, || AssetId::new_issuance(i.previous_output, contract))?;
            ensure_eq!(hex(&ni.to_byte_array()), hex(&want.0), "AssetId::new_issuance");
            for conf in [false, true] {
                let tk = guard::guard("new_reissuance_token", 0, || AssetId::new_reissuance_token(i.previous_output, contract, conf))?;
                ensure_eq!(hex(&tk.to_byte_array()), hex(&ref_token(&want_ent, conf)), "AssetId::new_reissuance_token(confidential={})", conf);
            }
            ctx.evals_n(4);
        } else {
            let ent = AssetEntropy::from_byte_array(i.asset_issuance.asset_entropy);
            let fa = guard::guard("from_entropy", 0, || AssetId::from_entropy(ent))?;
            ensure_eq!(hex(&fa.to_byte_array()), hex(&want.0), "AssetId::from_entropy");
            for conf in [false, true] {
                let tk = guard::guard("reissuance_token_from_entropy", 0, || AssetId::reissuance_token_from_entropy(ent, conf))?;
                ensure_eq!(hex(&tk.to_byte_array()), hex(&ref_token(&i.asset_issuance.asset_entropy, conf)), "reissuance_token_from_entropy({})", conf);
            }
            ctx.evals_n(3);
        }
        ensure!(want.0 != want.1, "asset and token id coincide");
        let cls = format!(
            "{}{}{}{}",
            if i.previous_output.is_null() {
                if issuance_null(i) { "null-outpoint" } else if nonce_zero { "null-outpoint+new-issuance" } else { "null-outpoint+reissuance" }
            } else if issuance_null(i) {
                "no-issuance"
            } else if nonce_zero {
                "new-issuance"
            } else {
                "reissuance"
            },
            if i.is_pegin { "+pegin" } else { "" },
            if i.previous_output.vout != 0 && !i.previous_output.is_null() { "+index>0" } else { "" },
            if matches!(i.asset_issuance.amount, Value::Confidential(_)) { "+conf-amount" } else { "" }
        );
        ctx.class(&cls);
        if i.previous_output.vout == 0x3fff_ffff && i.is_pegin {
            ctx.class("index=2^30-1+pegin");
        }
        if (i.previous_output.is_null() && !issuance_null(i)) || (issuance_null(i) && i.is_pegin) {
            ctx.nontrivial(&(hex(&want.0), hex(&want.1), i.is_pegin));
        }
        if !i.previous_output.is_null() && ((nonce_zero && (i.previous_output.vout != 0 || i.is_pegin)) || !nonce_zero || matches!(i.asset_issuance.amount, Value::Confidential(_))) {
            ctx.nontrivial(&(hex(&want.0), hex(&want.1), i.is_pegin));
        }
        if ctx.wants_sample(&cls) {
            ctx.sample(&cls, || json!({"outpoint": i.previous_output.to_string(), "is_pegin": i.is_pegin, "reissuance": !nonce_zero,
                "amount": i.asset_issuance.amount.to_string(), "asset_id": hex(&want.0), "token_id": hex(&want.1)}));
        }
    }
    Ok(())
}

// ---- JSON contracts ---------------------------------------------------------------------

#[derive(Clone, Debug)]
enum J {
    Null,
    Bool(bool),
    Int(i64),
    Big(u64),
    Float(f64),
    Str(String),
    Arr(Vec<J>),
    Obj(Vec<(String, J)>),
}

fn gen_key(t: &mut Tape, plain: bool) -> String {
    let n = t.range(0, 6);
    let alphabet: &[char] = if plain {
        &['a', 'b', 'c', 'Z', '0', '9', '_', '-', ' ', 'k']
    } else {
        &['a', 'b', 'Z', '0', '_', ' ', '"', '\\', '/', '\n', '\t', 'é', '€', '😀', '\u{1}', 'k', '\r', '\u{8}', '\u{c}', '\u{7f}', '\u{1f}']
    };
    (0..n).map(|_| t.choose(alphabet)).collect()
}

fn gen_j(t: &mut Tape, depth: usize, plain: bool) -> J {
    let k = if depth >= 3 { t.below(5) } else { t.below(8) };
    match k {
        0 => J::Null,
        1 => J::Bool(t.bool()),
        2 => J::Int(match t.below(4) {
            0 => 0,
            1 => -1,
            2 => i64::MIN,
            _ => t.u64() as i64,
        }),
        3 => {
            if plain || t.bool() {
                J::Big(t.edgy_u64())
            } else {
                J::Float(t.choose(&[0.5f64, -2.25, 1e10, 3.0e-5, 123456.75]))
            }
        }
        4 => J::Str(gen_key(t, plain)),
        5 => {
            let n = t.below(4);
            J::Arr((0..n).map(|_| gen_j(t, depth + 1, plain)).collect())
        }
        _ => gen_obj(t, depth + 1, plain),
    }
}
fn gen_obj(t: &mut Tape, depth: usize, plain: bool) -> J {
    let n = t.below(5);
    let mut fields: Vec<(String, J)> = Vec::new();
    for _ in 0..n {
        let mut k = gen_key(t, plain);
        while fields.iter().any(|(x, _)| *x == k) {
            k.push('x');
        }
        fields.push((k, gen_j(t, depth, plain)));
    }
    J::Obj(fields)
}
/// one object with 20..40 keys k0, k1, ... (of different lengths: "k10" sorts before "k2") in a
/// tape-shuffled insertion order; small values, now and then a nested small object
fn gen_wide_obj(t: &mut Tape, plain: bool) -> J {
    let n = t.range(20, 40);
    let mut order: Vec<usize> = (0..n).collect();
    for i in (1..n).rev() {
        let k = t.below(i + 1);
        order.swap(i, k);
    }
    J::Obj(
        order
            .into_iter()
            .map(|i| {
                let v = match t.below(8) {
                    0 => gen_obj(t, 2, plain),
                    1 => J::Str(gen_key(t, plain)),
                    _ => J::Int(i as i64),
                };
                (format!("k{}", i), v)
            })
            .collect(),
    )
}

/// JSON string literal as the reference writes it: the escaping rules of the serializer the contract hash is
/// defined by (short escapes for `"` `\` BS FF LF CR TAB, \u00xx in lower-case hex for the other control
/// characters, everything else - `/`, DEL, non-ASCII - raw)
fn esc(s: &str, out: &mut String) {
    out.push('"');
    for c in s.chars() {
        match c {
            '"' => out.push_str("\\\""),
            '\\' => out.push_str("\\\\"),
            '\n' => out.push_str("\\n"),
            '\t' => out.push_str("\\t"),
            '\r' => out.push_str("\\r"),
            '\u{8}' => out.push_str("\\b"),
            '\u{c}' => out.push_str("\\f"),
            c if (c as u32) < 0x20 => out.push_str(&format!("\\u{:04x}", c as u32)),
            c => out.push(c),
        }
    }
    out.push('"');
}

fn ws_run(t: &mut Tape, ws: bool, out: &mut String) {
    if ws {
        for _ in 0..t.below(3) {
            out.push(t.choose(&[' ', '\n', '\t', '\r']));
        }
    }
}

/// render with key order permuted at every level and whitespace between tokens, both from the tape
fn render(j: &J, t: &mut Tape, ws: bool, permute: bool, sort: bool, out: &mut String) {
    let space = |t: &mut Tape, out: &mut String| ws_run(t, ws, out);
    match j {
        J::Null => out.push_str("null"),
        J::Bool(b) => out.push_str(if *b { "true" } else { "false" }),
        J::Int(i) => out.push_str(&i.to_string()),
        J::Big(u) => out.push_str(&u.to_string()),
        J::Float(f) => out.push_str(&format!("{:?}", f)),
        J::Str(s) => esc(s, out),
        J::Arr(a) => {
            out.push('[');
            space(t, out);
            for (i, e) in a.iter().enumerate() {
                if i > 0 {
                    out.push(',');
                    space(t, out);
                }
                render(e, t, ws, permute, sort, out);
                space(t, out);
            }
            out.push(']');
        }
        J::Obj(fields) => {
            let mut order: Vec<usize> = (0..fields.len()).collect();
            if sort {
                order.sort_by(|a, b| fields[*a].0.as_bytes().cmp(fields[*b].0.as_bytes()));
            } else if permute {
                for i in (1..order.len()).rev() {
                    let k = t.below(i + 1);
                    order.swap(i, k);
                }
            }
            out.push('{');
            space(t, out);
            for (n, &i) in order.iter().enumerate() {
                if n > 0 {
                    out.push(',');
                    space(t, out);
                }
                esc(&fields[i].0, out);
                space(t, out);
                out.push(':');
                space(t, out);
                render(&fields[i].1, t, ws, permute, sort, out);
                space(t, out);
            }
            out.push('}');
        }
    }
}

fn has_nested_obj(j: &J, depth: usize) -> bool {
    match j {
        J::Obj(f) => (depth >= 1 && f.len() >= 2) || f.iter().any(|(_, v)| has_nested_obj(v, depth + 1)),
        J::Arr(a) => a.iter().any(|v| has_nested_obj(v, depth)),
        _ => false,
    }
}
fn has_float(j: &J) -> bool {
    match j {
        J::Float(_) => true,
        J::Obj(f) => f.iter().any(|(_, v)| has_float(v)),
        J::Arr(a) => a.iter().any(has_float),
        _ => false,
    }
}

fn json_contracts(t: &mut Tape, ctx: &mut Ctx) -> R {
    let plain = t.bool();
    let wide = t.chance(10);
    let obj = if wide { gen_wide_obj(t, plain) } else { gen_obj(t, 0, plain) };
    let mut empty = Tape::new(&[]);
    let mut base = String::new();
    render(&obj, &mut empty, false, false, false, &mut base);
    let h0 = match guard::guard("from_json_contract", base.len(), || ContractHash::from_json_contract(&base))? {
        Ok(h) => h.to_byte_array(),
        Err(e) => return Err(Failure::new(format!("from_json_contract rejected a JSON object: {} ({})", e, base))),
    };
    ctx.eval();
    for round in 0..3 {
        let ws = round != 1;
        let mut s = String::new();
        // whitespace around the outermost braces is as insignificant as whitespace inside them (a contract
        // file usually ends in a newline)
        ws_run(t, ws, &mut s);
        let lead = !s.is_empty();
        render(&obj, t, ws, round != 0, false, &mut s);
        let before = s.len();
        ws_run(t, ws, &mut s);
        if ws && t.chance(64) {
            s.push('\n');
        }
        let trail = s.len() > before;
        let h = match guard::guard("from_json_contract", s.len(), || ContractHash::from_json_contract(&s))? {
            Ok(h) => h.to_byte_array(),
            Err(e) => return Err(Failure::new(format!("from_json_contract rejected a re-rendering: {} ({:?})", e, s))),
        };
        ctx.eval();
        ensure!(
            h == h0,
            "contract hash depends on key order or whitespace\n a={:?}\n b={:?}\n hash(a)={} hash(b)={}",
            base, s, hex(&h0), hex(&h)
        );
        if lead {
            ctx.class("rendering:leading-whitespace");
        }
        if trail {
            ctx.class("rendering:trailing-whitespace");
        }
    }
    if !has_float(&obj) {
        // sorted compact rendering hashed with the harness SHA-256 (numbers are integers, which are written back
        // digit for digit; floats are left to the invariance oracle)
        let mut sorted = String::new();
        render(&obj, &mut empty, false, false, true, &mut sorted);
        let want = r::sha256(sorted.as_bytes());
        ensure_eq!(hex(&h0), hex(&want), "contract hash is not SHA-256 of the sorted compact rendering {:?}", sorted);
        ctx.class(if plain { "contract:plain(reference hash)" } else { "contract:escapes/unicode(reference hash)" });
    } else {
        ctx.class("contract:floats(invariance only)");
    }
    if wide {
        ctx.class("contract:wide-object(20..40 keys)");
    }
    if has_nested_obj(&obj, 0) || wide {
        ctx.class("contract:nested-object");
        ctx.nontrivial(&base);
    }
    if ctx.wants_sample("contract") && has_nested_obj(&obj, 0) {
        ctx.sample("contract", || json!({"json": base, "hash": hex(&h0)}));
    }
    Ok(())
}

fn repro_pset_flags() -> bool {
    let mut i = TxIn::default();
    i.previous_output = OutPoint { txid: elements::Txid::from_byte_array([1; 32]), vout: 0 };
    i.asset_issuance.amount = Value::Explicit(1);
    let p = PsetInput::from_txin(i.clone());
    p.issuance_ids() != i.issuance_ids()
}

pub fn property() -> Property {
    Property {
        id: "C11",
        rule: "issuance_ids: 1..3 inputs over any txid, plain index < 2^30 (edge-biased) or the null outpoint, any contract \
               hash / entropy, zero and non-zero blinding nonce, null/explicit/confidential amount and inflation keys, \
               optional pegin flag; oracle: TxIn::issuance_ids == pset::Input::from_txin(..).issuance_ids == ids of \
               extract_tx(from_tx(tx)) input == AssetId constructors == harness derivation (own SHA-256 and fast merkle \
               root). issuance_ids_ext: the same oracle over a generator that adds inputs WITHOUT an issuance on ordinary \
               outpoints (pegin flag on half of them, index 2^30-1 with the pegin flag included) and the null outpoint \
               combined with a real new issuance / reissuance; then, for inputs with a confidential amount or confidential \
               inflation keys, the explicit amount / keys (+ blind proofs, blinded_issuance) are stored next to the commitment \
               in the PSET input: its ids and the ids of the input extracted from a PSET holding it == derivation with the \
               blinded-amount token word. json_contracts: generated objects (nesting <= 3, escapes incl. all short escapes and \
               \\u00xx controls, non-ASCII, ints, floats, arrays; 4 % one wide object of 20..40 keys k0..k39 in shuffled \
               order); 3 re-renderings with permuted keys at every level and whitespace inserted between tokens AND before / \
               after the outermost braces (incl. a final newline) must hash identically; every object without floats == \
               harness SHA-256 of the sorted compact rendering (serializer escaping rules re-implemented). Non-trivial: new \
               issuance with index>0 or pegin flag, reissuance, confidential amount, no-issuance pegin, null outpoint with \
               issuance, explicit+commitment PSET input; contract with a nested multi-key or wide object; distinct by ids / text.",
        assumptions: &["harness SHA-256 / fast merkle root as in C18"],
        subs: vec![
            Sub { name: "issuance_ids", kind: Kind::Tape { max_len: 1500, quick: 400_000, thorough: 4_000_000, f: issuance_ids } },
            Sub { name: "issuance_ids_ext", kind: Kind::Tape { max_len: 1500, quick: 300_000, thorough: 3_000_000, f: issuance_ids_ext } },
            Sub { name: "json_contracts", kind: Kind::Tape { max_len: 1200, quick: 300_000, thorough: 2_000_000, f: json_contracts } },
        ],
        known: vec![Known { key: KF_PSET_FLAGS, what: "pset::Input::issuance_ids hashes the outpoint index including the pegin/issuance flag bits", repro: repro_pset_flags }],
    }
}
