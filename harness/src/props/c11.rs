//! C11 — asset and token ids follow the issuance derivation in every representation.
use elements::confidential::Value;
use elements::hashes::Hash as _;
use elements::pset::{Input as PsetInput, PartiallySignedTransaction};
use elements::secp256k1_zkp::ZERO_TWEAK;
use elements::{AssetEntropy, AssetId, AssetIssuance, ContractHash, LockTime, OutPoint, Script, Sequence, Transaction, TxIn, TxInWitness};
use serde_json::json;

use crate::engine::*;
use crate::gen::{self, TxOpts};
use crate::refimpl::sha256 as r;
use crate::{ensure, ensure_eq};

pub const KF_PSET_FLAGS: &str = "pset-input-issuance-ids-hash-flag-bits";

fn word(n: u8) -> [u8; 32] {
    let mut a = [0u8; 32];
    a[0] = n;
    a
}
fn ref_entropy(txid: &[u8; 32], vout: u32, contract: &[u8; 32]) -> [u8; 32] {
    let mut b = txid.to_vec();
    b.extend_from_slice(&vout.to_le_bytes());
    r::fast_merkle_root(&[r::sha256d(&b), *contract])
}
fn ref_asset(entropy: &[u8; 32]) -> [u8; 32] {
    r::fast_merkle_root(&[*entropy, word(0)])
}
fn ref_token(entropy: &[u8; 32], blinded: bool) -> [u8; 32] {
    r::fast_merkle_root(&[*entropy, word(if blinded { 2 } else { 1 })])
}
/// reference ids of an input: (asset, token)
fn ref_ids(i: &TxIn) -> ([u8; 32], [u8; 32]) {
    let entropy = if i.asset_issuance.asset_blinding_nonce == ZERO_TWEAK {
        ref_entropy(&i.previous_output.txid.to_byte_array(), i.previous_output.vout, &i.asset_issuance.asset_entropy)
    } else {
        i.asset_issuance.asset_entropy
    };
    (ref_asset(&entropy), ref_token(&entropy, matches!(i.asset_issuance.amount, Value::Confidential(_))))
}

fn gen_input(t: &mut Tape) -> TxIn {
    let kind = t.below(8);
    let null_outpoint = kind == 0;
    let previous_output = if null_outpoint { OutPoint::null() } else { OutPoint { txid: gen::gen_txid(t), vout: gen::gen_vout(t) } };
    let asset_issuance = if null_outpoint {
        AssetIssuance::null()
    } else {
        let mut iss = gen::gen_issuance_nonnull(t);
        if t.chance(30) {
            // both amounts confidential / amount null
            iss.amount = Value::Null;
            iss.inflation_keys = gen::gen_value_nonnull(t);
        }
        iss
    };
    let mut is_pegin = !null_outpoint && t.chance(90);
    if is_pegin && previous_output.vout == 0x3fff_ffff {
        is_pegin = false;
    }
    TxIn { previous_output, is_pegin, script_sig: Script::new(), sequence: Sequence(t.edgy_u32()), asset_issuance, witness: TxInWitness::empty() }
}

fn ids_of(what: &str, f: impl FnOnce() -> (AssetId, AssetId)) -> Result<([u8; 32], [u8; 32]), Failure> {
    let (a, b) = guard::guard(what, 0, f)?;
    Ok((a.to_byte_array(), b.to_byte_array()))
}

fn issuance_ids(t: &mut Tape, ctx: &mut Ctx) -> R {
    let n = 1 + t.below(3);
    let inputs: Vec<TxIn> = (0..n).map(|_| gen_input(t)).collect();
    let o = TxOpts { big: false, wellformed: true, ..TxOpts::default() };
    let tx = Transaction { version: 2, lock_time: LockTime::ZERO, input: inputs.clone(), output: vec![gen::gen_txout(t, &o)] };
    let pset = guard::guard("from_tx", 0, || PartiallySignedTransaction::from_tx(tx.clone()))?;
    let extracted = guard::guard("extract_tx", 0, || pset.extract_tx())?;
    for (k, i) in inputs.iter().enumerate() {
        let want = ref_ids(i);
        let a = ids_of("TxIn::issuance_ids", || i.issuance_ids())?;
        ctx.eval();
        ensure!(
            a == want,
            "TxIn::issuance_ids differs from the derivation: got ({}, {}) want ({}, {}) for {:?}",
            hex(&a.0), hex(&a.1), hex(&want.0), hex(&want.1), i
        );
        // PSET input built from it
        let pi = guard::guard("Input::from_txin", 0, || PsetInput::from_txin(i.clone()))?;
        let b = ids_of("pset::Input::issuance_ids", || pi.issuance_ids())?;
        ctx.eval();
        if b != want {
            let flagged = i.is_pegin || i.has_issuance();
            if flagged && ctx.is_known(KF_PSET_FLAGS) {
                ctx.class("known:pset-flag-bits");
            } else {
                return Err(Failure::new(format!(
                    "pset::Input::issuance_ids of the PSET input built from a transaction input differs from the input's own ids\n pset=({}, {})\n txin=({}, {})\n input={:?}",
                    hex(&b.0), hex(&b.1), hex(&want.0), hex(&want.1), i
                )));
            }
        }
        // the PSET's own input (from_tx) and the extracted transaction
        let b2 = ids_of("pset::Input::issuance_ids", || pset.inputs()[k].issuance_ids())?;
        if b2 != b {
            return Err(Failure::new("from_tx and Input::from_txin give inputs with different issuance ids".to_string()));
        }
        match &extracted {
            Ok(ex) => {
                let c = ids_of("TxIn::issuance_ids", || ex.input[k].issuance_ids())?;
                ctx.eval();
                ensure!(c == want, "the input of the transaction extracted from the PSET yields different ids ({:?} vs {:?})", ex.input[k], i);
            }
            Err(e) => return Err(Failure::new(format!("extract_tx failed on a PSET made by from_tx: {}", e))),
        }
        // constructors
        let nonce_zero = i.asset_issuance.asset_blinding_nonce == ZERO_TWEAK;
        if nonce_zero {
            let contract = ContractHash::from_byte_array(i.asset_issuance.asset_entropy);
            let ent = guard::guard("generate_asset_entropy", 0, || AssetId::generate_asset_entropy(i.previous_output, contract))?;
            let want_ent = ref_entropy(&i.previous_output.txid.to_byte_array(), i.previous_output.vout, &i.asset_issuance.asset_entropy);
            ensure_eq!(hex(&ent.to_byte_array()), hex(&want_ent), "generate_asset_entropy");
            let ni = guard::guard("new_issuance", 0, || AssetId::new_issuance(i.previous_output, contract))?;
            ensure_eq!(hex(&ni.to_byte_array()), hex(&want.0), "AssetId::new_issuance");
            for conf in [false, true] {
                let tk = guard::guard("new_reissuance_token", 0, || AssetId::new_reissuance_token(i.previous_output, contract, conf))?;
                ensure_eq!(hex(&tk.to_byte_array()), hex(&ref_token(&want_ent, conf)), "AssetId::new_reissuance_token(confidential={})", conf);
            }
            ctx.evals_n(4);
        } else {
            let ent = AssetEntropy::from_byte_array(i.asset_issuance.asset_entropy);
            let fa = guard::guard("from_entropy", 0, || AssetId::from_entropy(ent))?;
            ensure_eq!(hex(&fa.to_byte_array()), hex(&want.0), "AssetId::from_entropy");
            for conf in [false, true] {
                let tk = guard::guard("reissuance_token_from_entropy", 0, || AssetId::reissuance_token_from_entropy(ent, conf))?;
                ensure_eq!(hex(&tk.to_byte_array()), hex(&ref_token(&i.asset_issuance.asset_entropy, conf)), "reissuance_token_from_entropy({})", conf);
            }
            ctx.evals_n(3);
        }
        ensure!(want.0 != want.1, "asset and token id coincide");
        let cls = format!(
            "{}{}{}{}",
            if i.previous_output.is_null() { "null-outpoint" } else if nonce_zero { "new-issuance" } else { "reissuance" },
            if i.is_pegin { "+pegin" } else { "" },
            if i.previous_output.vout != 0 && !i.previous_output.is_null() { "+index>0" } else { "" },
            if matches!(i.asset_issuance.amount, Value::Confidential(_)) { "+conf-amount" } else { "" }
        );
        ctx.class(&cls);
        if !i.previous_output.is_null() && ((nonce_zero && (i.previous_output.vout != 0 || i.is_pegin)) || !nonce_zero || matches!(i.asset_issuance.amount, Value::Confidential(_))) {
            ctx.nontrivial(&(hex(&want.0), hex(&want.1), i.is_pegin));
        }
        if ctx.wants_sample(&cls) {
            ctx.sample(&cls, || json!({"outpoint": i.previous_output.to_string(), "is_pegin": i.is_pegin, "reissuance": !nonce_zero,
                "amount": i.asset_issuance.amount.to_string(), "asset_id": hex(&want.0), "token_id": hex(&want.1)}));
        }
    }
    Ok(())
}

// ---- JSON contracts ---------------------------------------------------------------------

#[derive(Clone, Debug)]
enum J {
    Null,
    Bool(bool),
    Int(i64),
    Big(u64),
    Float(f64),
    Str(String),
    Arr(Vec<J>),
    Obj(Vec<(String, J)>),
}

fn gen_key(t: &mut Tape, plain: bool) -> String {
    let n = t.range(0, 6);
    let alphabet: &[char] = if plain {
        &['a', 'b', 'c', 'Z', '0', '9', '_', '-', ' ', 'k']
    } else {
        &['a', 'b', 'Z', '0', '_', ' ', '"', '\\', '/', '\n', '\t', 'é', '€', '😀', '\u{1}', 'k']
    };
    (0..n).map(|_| t.choose(alphabet)).collect()
}

fn gen_j(t: &mut Tape, depth: usize, plain: bool) -> J {
    let k = if depth >= 3 { t.below(5) } else { t.below(8) };
    match k {
        0 => J::Null,
        1 => J::Bool(t.bool()),
        2 => J::Int(match t.below(4) {
            0 => 0,
            1 => -1,
            2 => i64::MIN,
            _ => t.u64() as i64,
        }),
        3 => {
            if plain || t.bool() {
                J::Big(t.edgy_u64())
            } else {
                J::Float(t.choose(&[0.5f64, -2.25, 1e10, 3.0e-5, 123456.75]))
            }
        }
        4 => J::Str(gen_key(t, plain)),
        5 => {
            let n = t.below(4);
            J::Arr((0..n).map(|_| gen_j(t, depth + 1, plain)).collect())
        }
        _ => gen_obj(t, depth + 1, plain),
    }
}
fn gen_obj(t: &mut Tape, depth: usize, plain: bool) -> J {
    let n = t.below(5);
    let mut fields: Vec<(String, J)> = Vec::new();
    for _ in 0..n {
        let mut k = gen_key(t, plain);
        while fields.iter().any(|(x, _)| *x == k) {
            k.push('x');
        }
        fields.push((k, gen_j(t, depth, plain)));
    }
    J::Obj(fields)
}

fn esc(s: &str, out: &mut String) {
    out.push('"');
    for c in s.chars() {
        match c {
            '"' => out.push_str("\\\""),
            '\\' => out.push_str("\\\\"),
            '\n' => out.push_str("\\n"),
            '\t' => out.push_str("\\t"),
            c if (c as u32) < 0x20 => out.push_str(&format!("\\u{:04x}", c as u32)),
            c => out.push(c),
        }
    }
    out.push('"');
}

/// render with key order permuted at every level and whitespace between tokens, both from the tape
fn render(j: &J, t: &mut Tape, ws: bool, permute: bool, sort: bool, out: &mut String) {
    let space = |t: &mut Tape, out: &mut String| {
        if ws {
            for _ in 0..t.below(3) {
                out.push(t.choose(&[' ', '\n', '\t', '\r']));
            }
        }
    };
    match j {
        J::Null => out.push_str("null"),
        J::Bool(b) => out.push_str(if *b { "true" } else { "false" }),
        J::Int(i) => out.push_str(&i.to_string()),
        J::Big(u) => out.push_str(&u.to_string()),
        J::Float(f) => out.push_str(&format!("{:?}", f)),
        J::Str(s) => esc(s, out),
        J::Arr(a) => {
            out.push('[');
            space(t, out);
            for (i, e) in a.iter().enumerate() {
                if i > 0 {
                    out.push(',');
                    space(t, out);
                }
                render(e, t, ws, permute, sort, out);
                space(t, out);
            }
            out.push(']');
        }
        J::Obj(fields) => {
            let mut order: Vec<usize> = (0..fields.len()).collect();
            if sort {
                order.sort_by(|a, b| fields[*a].0.as_bytes().cmp(fields[*b].0.as_bytes()));
            } else if permute {
                for i in (1..order.len()).rev() {
                    let k = t.below(i + 1);
                    order.swap(i, k);
                }
            }
            out.push('{');
            space(t, out);
            for (n, &i) in order.iter().enumerate() {
                if n > 0 {
                    out.push(',');
                    space(t, out);
                }
                esc(&fields[i].0, out);
                space(t, out);
                out.push(':');
                space(t, out);
                render(&fields[i].1, t, ws, permute, sort, out);
                space(t, out);
            }
            out.push('}');
        }
    }
}

fn has_nested_obj(j: &J, depth: usize) -> bool {
    match j {
        J::Obj(f) => (depth >= 1 && f.len() >= 2) || f.iter().any(|(_, v)| has_nested_obj(v, depth + 1)),
        J::Arr(a) => a.iter().any(|v| has_nested_obj(v, depth)),
        _ => false,
    }
}

fn json_contracts(t: &mut Tape, ctx: &mut Ctx) -> R {
    let plain = t.bool();
    let obj = gen_obj(t, 0, plain);
    let mut empty = Tape::new(&[]);
    let mut base = String::new();
    render(&obj, &mut empty, false, false, false, &mut base);
    let h0 = match guard::guard("from_json_contract", base.len(), || ContractHash::from_json_contract(&base))? {
        Ok(h) => h.to_byte_array(),
        Err(e) => return Err(Failure::new(format!("from_json_contract rejected a JSON object: {} ({})", e, base))),
    };
    ctx.eval();
    for round in 0..3 {
        let mut s = String::new();
        render(&obj, t, round != 1, round != 0, false, &mut s);
        let h = match guard::guard("from_json_contract", s.len(), || ContractHash::from_json_contract(&s))? {
            Ok(h) => h.to_byte_array(),
            Err(e) => return Err(Failure::new(format!("from_json_contract rejected a re-rendering: {} ({})", e, s))),
        };
        ctx.eval();
        ensure!(
            h == h0,
            "contract hash depends on key order or whitespace\n a={}\n b={}\n hash(a)={} hash(b)={}",
            base, s, hex(&h0), hex(&h)
        );
    }
    if plain {
        // sorted compact rendering hashed with the harness SHA-256
        let mut sorted = String::new();
        render(&obj, &mut empty, false, false, true, &mut sorted);
        let want = r::sha256(sorted.as_bytes());
        ensure_eq!(hex(&h0), hex(&want), "contract hash is not SHA-256 of the sorted compact rendering {}", sorted);
        ctx.class("contract:plain(reference hash)");
    } else {
        ctx.class("contract:escapes/unicode/floats(invariance)");
    }
    if has_nested_obj(&obj, 0) {
        ctx.class("contract:nested-object");
        ctx.nontrivial(&base);
    }
    if ctx.wants_sample("contract") && has_nested_obj(&obj, 0) {
        ctx.sample("contract", || json!({"json": base, "hash": hex(&h0)}));
    }
    Ok(())
}

fn repro_pset_flags() -> bool {
    let mut i = TxIn::default();
    i.previous_output = OutPoint { txid: elements::Txid::from_byte_array([1; 32]), vout: 0 };
    i.asset_issuance.amount = Value::Explicit(1);
    let p = PsetInput::from_txin(i.clone());
    p.issuance_ids() != i.issuance_ids()
}

pub fn property() -> Property {
    Property {
        id: "C11",
        rule: "issuance_ids: 1..3 inputs over any txid, plain index < 2^30 (edge-biased) or the null outpoint, any contract \
               hash / entropy, zero and non-zero blinding nonce, null/explicit/confidential amount and inflation keys, \
               optional pegin flag; oracle: TxIn::issuance_ids == pset::Input::from_txin(..).issuance_ids == ids of \
               extract_tx(from_tx(tx)) input == AssetId constructors == harness derivation (own SHA-256 and fast merkle \
               root). json_contracts: generated objects (nesting <= 3, escapes, non-ASCII, ints, floats, arrays); 3 \
               re-renderings with permuted keys at every level and inserted whitespace must hash identically; plain subset \
               == harness SHA-256 of the sorted compact rendering. Non-trivial: new issuance with index>0 or pegin flag, \
               reissuance, confidential amount; contract with a nested multi-key object; distinct by ids / text.",
        assumptions: &["harness SHA-256 / fast merkle root as in C18"],
        subs: vec![
            Sub { name: "issuance_ids", kind: Kind::Tape { max_len: 1500, quick: 600_000, thorough: 5_000_000, f: issuance_ids } },
            Sub { name: "json_contracts", kind: Kind::Tape { max_len: 1200, quick: 300_000, thorough: 2_000_000, f: json_contracts } },
        ],
        known: vec![Known { key: KF_PSET_FLAGS, what: "pset::Input::issuance_ids hashes the outpoint index including the pegin/issuance flag bits", repro: repro_pset_flags }],
    }
}
