//! C10 — fallible public APIs are total: errors, never panics or unbounded allocation.
//!
//! Every call into the library runs under `guard::guard` (catch_unwind + allocation accounting);
//! a returned `Err` / `None` is always fine. Documented panic conditions are never generated.
use crate::refimpl::Variant as _;
use std::collections::HashMap;
use std::str::FromStr;

use elements::blech32::decode::{CheckedHrpstring, SegwitHrpstring, UncheckedHrpstring};
use elements::blech32::{Blech32, Blech32m};
use elements::confidential::{Asset, AssetBlindingFactor, Nonce, Value, ValueBlindingFactor};
use elements::encode::{deserialize, deserialize_partial, serialize};
use elements::hashes::Hash as _;
use elements::pset::serialize::Deserialize as PsetDeserialize;
use elements::pset::{self, PartiallySignedTransaction as Pset};
use elements::sighash::{Prevouts, SighashCache};
use elements::taproot::{ControlBlock, TaprootBuilder, TaprootMerkleBranch, TaprootSpendInfo};
use elements::{
    dynafed, script, Address, AddressParams, AssetId, AssetIssuance, Block, BlockHash, BlockHeader, ContractHash, LockTime, OutPoint, PeginData, SchnorrSig,
    SchnorrSighashType, Script, Sequence, Transaction, TxIn, TxInWitness, TxOut, TxOutSecrets, TxOutWitness, Txid,
};
use rand::SeedableRng;
use rand_chacha::ChaCha20Rng;
use serde_json::json;

use super::c01;
use crate::engine::*;
use crate::gen::ct::{self};
use crate::gen::pset::{self as gp, PsetOpts};
use crate::gen::ext_g7 as xg;
use crate::gen::{self, mutate, pool, secp, TxOpts};
use crate::refimpl::psetraw;

pub const KF_BLIND_NO_MARKED: &str = "transaction-blind-panics-without-marked-output";
pub const KF_NEW_BECH32_EMPTY: &str = "segwithrpstring-new-bech32-panics-on-empty-data";

fn g<T>(what: &str, len: usize, f: impl FnOnce() -> T) -> Result<T, Failure> {
    guard::guard(what, len, f)
}

// ---- accessors applied to freshly decoded values ------------------------------------------

pub fn tx_accessors(tx: &Transaction, n: usize) -> R {
    g("Transaction accessors", n, || {
        let _ = (tx.txid(), tx.wtxid(), tx.size(), tx.weight(), tx.vsize(), tx.discount_weight(), tx.discount_vsize());
        // fee_in / all_fees are not among the accessors the statement lists (they sum u64 fee amounts
        // without a failure channel); they are not exercised here
        let _ = (tx.is_coinbase(), tx.has_witness());
        for i in &tx.input {
            let _ = (i.is_coinbase(), i.is_pegin(), i.pegin_prevout(), i.has_issuance(), i.outpoint_flag(), i.issuance_ids());
            if let Some(pd) = i.pegin_data() {
                let _ = (pd.parse_tx().is_ok(), pd.parse_merkle_proof().is_ok(), pd.to_pegin_witness().len());
            }
            let _ = script_accessors_inner(&i.script_sig);
        }
        for o in &tx.output {
            let _ = (o.is_null_data(), o.is_pegout(), o.is_fee(), o.minimum_value(), o.is_partially_blinded());
            if let Some(pd) = o.pegout_data() {
                let _ = pd.extra_data.len();
            }
            let _ = (o.witness.rangeproof_len(), o.witness.surjectionproof_len());
            let _ = script_accessors_inner(&o.script_pubkey);
        }
        let _ = format!("{:?}", tx).len();
        let _ = serde_json::to_string(tx).map(|s| s.len());
    })
}

fn script_accessors_inner(s: &Script) -> usize {
    let mut n = 0;
    for ins in s.instructions() {
        n += usize::from(ins.is_ok());
    }
    for ins in s.instructions_minimal() {
        n += usize::from(ins.is_ok());
    }
    n += s.asm().len();
    n += format!("{} {:?} {:x}", s, s, s).len();
    let _ = (
        s.is_p2sh(),
        s.is_p2pkh(),
        s.is_p2pk(),
        s.is_witness_program(),
        s.is_v0_p2wsh(),
        s.is_v0_p2wpkh(),
        s.is_v1_p2tr(),
        s.is_v1plus_p2witprog(),
        s.is_op_return(),
        s.is_provably_unspendable(),
    );
    let _ = (s.script_hash(), s.wscript_hash(), s.to_p2sh().len(), s.to_v0_p2wsh().len());
    for p in [&AddressParams::ELEMENTS, &AddressParams::LIQUID] {
        if let Some(a) = Address::from_script(s, None, p) {
            n += a.to_string().len();
        }
    }
    n
}

pub fn script_accessors(s: &Script) -> R {
    g("Script accessors", s.len(), || {
        let _ = script_accessors_inner(s);
    })
}

fn header_accessors(h: &BlockHeader, n: usize) -> R {
    g("BlockHeader accessors", n, || {
        let _ = (h.block_hash(), h.is_dynafed(), h.calculate_dynafed_params_root(), h.dynafed_current().is_some(), h.dynafed_proposed().is_some());
        let mut c = h.clone();
        c.clear_witness();
        let _ = format!("{:?}", h).len();
        let _ = serde_json::to_string(h).map(|s| s.len());
    })
}

fn params_accessors(p: &dynafed::Params, n: usize) -> R {
    g("Params accessors", n, || {
        let _ = (p.calculate_root(), p.is_null(), p.is_compact(), p.is_full(), p.elided_root().is_some(), p.signblockscript().is_some());
        let _ = p.clone().into_compact().map(|c| c.calculate_root());
        let _ = format!("{:?}", p).len();
    })
}

pub fn pset_accessors(p: &Pset, n: usize) -> R {
    g("PSET accessors", n, || {
        let _ = (p.extract_tx().is_ok(), p.unique_id().is_ok(), p.locktime().is_ok(), p.sanity_check().is_ok(), p.n_inputs(), p.n_outputs());
        let _ = serialize(p).len();
        let _ = p.to_string().len();
        for i in p.inputs() {
            let _ = (i.has_issuance(), i.is_pegin(), i.issuance_ids(), i.asset_issuance(), i.ecdsa_hash_ty(), i.schnorr_hash_ty(), i.get_abf().map(|r| r.is_ok()));
        }
        for o in p.outputs() {
            let _ = (o.to_txout(), o.is_marked_for_blinding(), o.is_partially_blinded(), o.is_fully_blinded(), o.get_abf().map(|r| r.is_ok()));
        }
        let _ = p.get_asset_metadata(AssetId::LIQUID_BTC).map(|r| r.is_ok());
        let _ = p.get_token_metadata(AssetId::LIQUID_BTC).map(|r| r.is_ok());
        let empty: HashMap<usize, TxOutSecrets> = HashMap::new();
        let _ = p.surjection_inputs(&empty).is_ok();
        let _ = format!("{:?}", p).len();
    })
}

/// only the entry points of a PSET that report failure through Result / Option
pub fn pset_fallible(p: &Pset, n: usize) -> R {
    g("PSET fallible entry points", n, || {
        let _ = (p.extract_tx().is_ok(), p.unique_id().is_ok(), p.locktime().is_ok(), p.sanity_check().is_ok());
        for i in p.inputs() {
            let _ = i.get_abf().map(|r| r.is_ok());
        }
        for o in p.outputs() {
            let _ = o.get_abf().map(|r| r.is_ok());
        }
        let _ = p.get_asset_metadata(AssetId::LIQUID_BTC).map(|r| r.is_ok());
        let _ = p.get_token_metadata(AssetId::LIQUID_BTC).map(|r| r.is_ok());
        let empty: HashMap<usize, TxOutSecrets> = HashMap::new();
        let _ = p.surjection_inputs(&empty).is_ok();
    })
}

/// Is this in-memory PSET a value the PSET decoder can produce? (the rules of `Decodable for Output` and of
/// `sanity_check`, read off the struct fields by the harness)
pub fn pset_decodable(p: &Pset) -> bool {
    // (the declared counts are private and follow add_* / remove_*: they cannot disagree with the maps)
    p.outputs().iter().all(|o| {
            let marked = o.blinding_key.is_some();
            let any = o.amount_comm.is_some() || o.asset_comm.is_some() || o.value_rangeproof.is_some() || o.asset_surjection_proof.is_some() || o.ecdh_pubkey.is_some();
            let all = o.amount_comm.is_some() && o.asset_comm.is_some() && o.value_rangeproof.is_some() && o.asset_surjection_proof.is_some() && o.ecdh_pubkey.is_some();
            (o.amount.is_some() || o.amount_comm.is_some())
                && (o.asset.is_some() || o.asset_comm.is_some())
                && (!marked || o.blinder_index.is_some())
                && (!marked || !any || all)
        })
}

/// The statement covers the fallible functions on arbitrary in-memory values, and the *accessors normally applied
/// to freshly decoded values*: the infallible sweep (`to_txout`, encoder, Display, Debug ...) is therefore applied
/// only to values a decoder can produce; edited values outside that set get the fallible entry points only.
fn pset_sweep(p: &Pset, completed: bool, ctx: &mut Ctx) -> R {
    if completed && pset_decodable(p) {
        pset_accessors(p, 0)
    } else {
        ctx.class("pset-state:not-decodable:fallible-entry-points-only");
        pset_fallible(p, 0)
    }
}

// ---- (1) consensus decoders on arbitrary bytes ----------------------------------------------

const N_DECODERS: usize = 30;

/// decode `b` as type number `ty` and apply the accessors; returns whether it decoded
fn decode_as(ty: usize, b: &[u8]) -> Result<bool, Failure> {
    let n = b.len();
    macro_rules! just {
        ($t:ty) => {{
            let r = g(concat!("deserialize::<", stringify!($t), ">"), n, || deserialize::<$t>(b))?;
            let _ = g(concat!("deserialize_partial::<", stringify!($t), ">"), n, || deserialize_partial::<$t>(b).map(|(_, c)| c))?;
            if let Ok(v) = &r {
                let _ = g("re-serialize", n, || serialize(v).len())?;
            }
            r.is_ok()
        }};
    }
    Ok(match ty {
        0 => {
            let r = g("deserialize::<Transaction>", n, || deserialize::<Transaction>(b))?;
            let _ = g("deserialize_partial::<Transaction>", n, || deserialize_partial::<Transaction>(b).map(|(_, c)| c))?;
            if let Ok(tx) = &r {
                tx_accessors(tx, n)?;
                let p = g("from_tx", n, || Pset::from_tx(tx.clone()))?;
                pset_accessors(&p, n)?;
            }
            r.is_ok()
        }
        1 => {
            let r = g("deserialize::<Block>", n, || deserialize::<Block>(b))?;
            if let Ok(blk) = &r {
                g("Block accessors", n, || {
                    let _ = (blk.block_hash(), blk.size(), blk.weight());
                })?;
                header_accessors(&blk.header, n)?;
                for tx in blk.txdata.iter().take(4) {
                    tx_accessors(tx, n)?;
                }
            }
            r.is_ok()
        }
        2 => {
            let r = g("deserialize::<BlockHeader>", n, || deserialize::<BlockHeader>(b))?;
            if let Ok(h) = &r {
                header_accessors(h, n)?;
            }
            r.is_ok()
        }
        3 => {
            let r = g("deserialize::<Params>", n, || deserialize::<dynafed::Params>(b))?;
            if let Ok(p) = &r {
                params_accessors(p, n)?;
            }
            r.is_ok()
        }
        4 => {
            let r = g("deserialize::<Pset>", n, || deserialize::<Pset>(b))?;
            if let Ok(p) = &r {
                pset_accessors(p, n)?;
            }
            r.is_ok()
        }
        5 => {
            let r = g("deserialize::<TxOut>", n, || deserialize::<TxOut>(b))?;
            if let Ok(o) = &r {
                g("TxOut accessors", n, || {
                    let _ = (o.is_null_data(), o.pegout_data().is_some(), o.is_fee(), o.minimum_value());
                    let sk = pool().seckeys[0];
                    let _ = o.unblind(secp(), sk).is_ok();
                })?;
            }
            r.is_ok()
        }
        6 => just!(TxIn),
        7 => just!(TxInWitness),
        8 => just!(TxOutWitness),
        9 => just!(dynafed::FullParams),
        10 => just!(Asset),
        11 => just!(Value),
        12 => just!(Nonce),
        13 => just!(AssetIssuance),
        14 => just!(OutPoint),
        15 => {
            let r = g("deserialize::<Script>", n, || deserialize::<Script>(b))?;
            if let Ok(s) = &r {
                script_accessors(s)?;
            }
            r.is_ok()
        }
        16 => just!(LockTime),
        17 => just!(Sequence),
        18 => just!(Txid),
        19 => just!(AssetId),
        20 => just!(pset::Input),
        21 => just!(pset::Output),
        22 => just!(pset::Global),
        23 => just!(pset::raw::Key),
        24 => just!(pset::raw::Pair),
        25 => just!(pset::raw::ProprietaryKey),
        26 => just!(Vec<Vec<u8>>),
        27 => just!(Vec<TxOut>),
        28 => just!(elements::secp256k1_zkp::RangeProof),
        _ => just!(elements::secp256k1_zkp::SurjectionProof),
    })
}

fn valid_encoding(t: &mut Tape, ty: usize) -> Option<(Vec<u8>, crate::refimpl::enc::Layout)> {
    // valid encodings for the types we can generate
    let map = [Some(0usize), Some(5), Some(6), Some(7), None, Some(2), Some(1), Some(3), Some(4), Some(8), Some(9), Some(10), Some(11), Some(12), Some(13), Some(14), Some(15), Some(16), Some(17), Some(19)];
    // decoder index -> c01 type index
    let c01_ty = match ty {
        0 => 0,
        1 => 5,
        2 => 6,
        3 => 7,
        5 => 2,
        6 => 1,
        7 => 3,
        8 => 4,
        9 => 8,
        10 => 9,
        11 => 10,
        12 => 11,
        13 => 12,
        14 => 13,
        15 => 14,
        16 => 15,
        17 => 16,
        18 => 17,
        19 => 19,
        4 => {
            let p = gp::gen_pset(t, &PsetOpts::default());
            return Some((serialize(&p), Default::default()));
        }
        20 => {
            let i = gp::gen_input(t, 120);
            return Some((serialize(&i), Default::default()));
        }
        21 => {
            let o = gp::gen_output(t, 120, 2);
            return Some((serialize(&o), Default::default()));
        }
        22 => {
            let p = gp::gen_pset(t, &PsetOpts { max_in: 0, max_out: 0, ..PsetOpts::default() });
            return Some((serialize(&p.global), Default::default()));
        }
        23 => return Some((serialize(&gp::gen_unknown_key(t, 1)), Default::default())),
        24 => {
            let l = t.below(30);
            let pair = pset::raw::Pair { key: gp::gen_unknown_key(t, 1), value: t.bytes(l) };
            return Some((serialize(&pair), Default::default()));
        }
        25 => return Some((serialize(&gp::gen_prop_key(t, 1)), Default::default())),
        26 => return Some((serialize(&gen::gen_stack(t, true)), Default::default())),
        27 => {
            let n = t.below(4);
            let o = TxOpts { big: false, witness: false, ..TxOpts::default() };
            let v: Vec<TxOut> = (0..n).map(|_| gen::gen_txout(t, &o)).collect();
            return Some((serialize(&v), Default::default()));
        }
        28 => {
            let pl = pool();
            return Some((serialize(&pl.rangeproofs[t.below(pl.rangeproofs.len())]), Default::default()));
        }
        29 => {
            let pl = pool();
            return Some((serialize(&pl.surjproofs[t.below(pl.surjproofs.len())]), Default::default()));
        }
        _ => {
            let _ = map;
            return None;
        }
    };
    Some(c01::gen_any(t, c01_ty).ref_encode())
}

fn decoders(t: &mut Tape, ctx: &mut Ctx) -> R {
    let ty = match t.below(10) {
        0..=2 => 0,
        3 => 4,
        4 => 1,
        _ => t.below(N_DECODERS),
    };
    let source = t.below(10);
    let bytes: Vec<u8> = match source {
        0 => {
            let n = t.len(64, false);
            t.bytes(n)
        }
        1 => {
            // a length prefix that promises far more than is there
            let mut b = match valid_encoding(t, ty) {
                Some((b, _)) => b,
                None => vec![],
            };
            let at = t.below(b.len() + 1);
            let bomb: &[u8] = match t.below(4) {
                0 => &[0xfe, 0xff, 0xff, 0xff, 0x7f],
                1 => &[0xff, 0xff, 0xff, 0xff, 0xff, 0xff, 0xff, 0xff, 0x7f],
                2 => &[0xfe, 0x00, 0x09, 0x3d, 0x00],
                _ => &[0xfd, 0xff, 0xff],
            };
            b.splice(at..at, bomb.iter().copied());
            b
        }
        2 => {
            // repository vectors
            let files = if ty == 4 { super::c07::corpus_psets() } else { c01::corpus_tx_files() };
            if files.is_empty() {
                vec![]
            } else {
                let mut b = files[t.below(files.len())].1.clone();
                if t.bool() {
                    let l = crate::refimpl::enc::Layout::default();
                    mutate::mutate_once(t, &mut b, &l);
                }
                b
            }
        }
        _ => match valid_encoding(t, ty) {
            Some((mut b, l)) => {
                for _ in 0..t.below(4) {
                    mutate::mutate_once(t, &mut b, &l);
                }
                b
            }
            None => {
                let n = t.len(120, false);
                t.bytes(n)
            }
        },
    };
    ctx.eval();
    let ok = decode_as(ty, &bytes)?;
    ctx.class(&format!("decode:{}:{}", ty, if ok { "ok" } else { "err" }));
    if bytes.len() >= 8 {
        ctx.nontrivial(&(ty, &bytes));
    }
    if ctx.wants_sample("decoder") && ok && bytes.len() > 40 {
        ctx.sample("decoder", || json!({"decoder": ty, "len": bytes.len(), "source": source, "decoded": ok}));
    }
    Ok(())
}

// ---- text parsers --------------------------------------------------------------------------

fn valid_text(t: &mut Tape) -> String {
    let p = pool();
    match t.below(12) {
        0 | 1 => {
            let a = super::c06::gen_ref_addr(t);
            a.encode()
        }
        2 => gen::gen_txid(t).to_string(),
        3 => OutPoint { txid: gen::gen_txid(t), vout: t.edgy_u32() }.to_string(),
        4 => {
            let pset = gp::gen_pset(t, &PsetOpts { max_in: 1, max_out: 1, ..PsetOpts::default() });
            pset.to_string()
        }
        5 => gen::gen_asset_id(t).to_string(),
        6 => ct::abf_from(t, 1).to_string(),
        7 => t.choose(&["SIGHASH_ALL", "SIGHASH_NONE|SIGHASH_ANYONECANPAY", "SIGHASH_DEFAULT", "0x41", "SIGHASH_SINGLE"]).to_string(),
        8 => format!("{}", t.edgy_u32()),
        9 => {
            let s = gen::gen_script(t, false);
            format!("{:x}", s)
        }
        10 => {
            let _ = p;
            gen::gen_script(t, false).asm()
        }
        _ => "a1".to_string(),
    }
}

/// Strings that pass a checksum (bech32 / bech32m / blech32 / blech32m / base58check) but carry a payload of
/// arbitrary length, version and padding: everything behind the checksum gate of the address parsers.
fn checksum_valid_text(t: &mut Tape) -> String {
    use crate::refimpl::addr as ra;
    const LENS: [usize; 28] = [0, 1, 2, 3, 4, 19, 20, 21, 31, 32, 33, 34, 35, 36, 40, 41, 42, 52, 53, 54, 64, 65, 66, 72, 73, 74, 75, 90];
    let len = if t.below(4) == 0 { t.below(100) } else { LENS[t.below(LENS.len())] };
    let mut payload = t.bytes(len);
    if len >= 33 && t.bool() {
        // a real compressed key in front, so that parsing proceeds beyond the key check
        payload[..33].copy_from_slice(&pool().pubkeys[t.below(pool().pubkeys.len())].serialize());
    }
    if t.below(3) == 0 {
        // base58check over an arbitrary payload with the networks' prefix bytes
        const PFX: [u8; 12] = [57, 39, 12, 235, 75, 4, 36, 19, 23, 0, 5, 255];
        let mut v = vec![PFX[t.below(PFX.len())]];
        if t.bool() {
            v.push(PFX[t.below(PFX.len())]);
        }
        v.extend_from_slice(&payload);
        return ra::base58check(&v);
    }
    let hrp = t.choose(&["lq", "el", "tlq", "ex", "ert", "tex", "bc", "a", "lq1el"]);
    let version = if t.below(4) == 0 { t.below(32) as u8 } else { t.below(18) as u8 };
    let mut data5 = if t.below(8) == 0 { ra::to5(&payload) } else { ra::segwit_data5(version, &payload) };
    if t.below(8) == 0 {
        // non-zero padding / surplus symbols
        for _ in 0..1 + t.below(3) {
            data5.push(t.below(32) as u8);
        }
    }
    let s = match t.below(4) {
        0 => ra::bech32_encode_raw(hrp, &data5, ra::BECH32_CONST),
        1 => ra::bech32_encode_raw(hrp, &data5, ra::BECH32M_CONST),
        2 => ra::blech32_encode_raw(hrp, &data5, ra::BLECH32_CONST),
        _ => ra::blech32_encode_raw(hrp, &data5, ra::BLECH32M_CONST),
    };
    if t.below(6) == 0 {
        s.to_uppercase()
    } else {
        s
    }
}

fn mutate_text(t: &mut Tape, s: &mut String) {
    let mut chars: Vec<char> = s.chars().collect();
    let alphabet: Vec<char> = "qpzry9x8gf2tvdw0s3jn54khce6mua7l1bioBQ0OIl+/=:|x-_ \u{e9}\u{20ac}\u{1F600}\0".chars().collect();
    match t.below(8) {
        0 if !chars.is_empty() => {
            let k = t.below(chars.len());
            chars[k] = alphabet[t.below(alphabet.len())];
        }
        1 if !chars.is_empty() => {
            let k = t.below(chars.len());
            chars.truncate(k);
        }
        2 => {
            let k = t.below(chars.len() + 1);
            chars.insert(k, alphabet[t.below(alphabet.len())]);
        }
        3 if !chars.is_empty() => {
            let k = t.below(chars.len());
            chars.remove(k);
        }
        4 => {
            let up: String = chars.iter().collect::<String>().to_uppercase();
            chars = up.chars().collect();
        }
        5 => {
            // keep only the part up to / after the separator
            if let Some(pos) = chars.iter().rposition(|c| *c == '1') {
                if t.bool() {
                    chars.truncate(pos + 1);
                } else {
                    chars = chars[pos..].to_vec();
                }
            }
        }
        6 => {
            let n = t.below(200);
            let c = alphabet[t.below(alphabet.len())];
            chars.extend(std::iter::repeat(c).take(n));
        }
        _ => {}
    }
    *s = chars.into_iter().collect();
}

fn parse_text(s: &str, ctx: &mut Ctx) -> R {
    let n = s.len();
    let r = g("Address::from_str", n, || Address::from_str(s).is_ok())?;
    for p in [&AddressParams::LIQUID, &AddressParams::ELEMENTS, &AddressParams::LIQUID_TESTNET] {
        let _ = g("Address::parse_with_params", n, || Address::parse_with_params(s, p).map(|a| (a.to_string().len(), a.script_pubkey().len(), a.is_blinded(), a.to_unconfidential().to_string().len())).is_ok())?;
    }
    let _ = g("UncheckedHrpstring::new", n, || {
        UncheckedHrpstring::new(s).map(|u| {
            let _ = (u.hrp(), u.has_valid_checksum::<Blech32>(), u.has_valid_checksum::<Blech32m>(), u.validate_checksum::<Blech32>().is_ok());
            let _ = u.validate_and_remove_checksum::<Blech32m>().map(|c| c.byte_iter().count());
        }).is_ok()
    })?;
    let _ = g("CheckedHrpstring::new", n, || {
        let a = CheckedHrpstring::new::<Blech32>(s).map(|c| {
            let _ = (c.hrp(), c.byte_iter().count());
            let _ = c.validate_segwit().map(|x| x.byte_iter().count());
        });
        let b = CheckedHrpstring::new::<Blech32m>(s).map(|c| c.byte_iter().count());
        a.is_ok() || b.is_ok()
    })?;
    let _ = g("SegwitHrpstring::new", n, || SegwitHrpstring::new(s).map(|x| (x.has_valid_hrp(), x.hrp(), x.witness_version(), x.byte_iter().count())).is_ok())?;
    match guard::guard("SegwitHrpstring::new_bech32", n, || SegwitHrpstring::new_bech32(s).map(|x| x.byte_iter().count()).is_ok()) {
        Ok(_) => {}
        Err(f) => {
            // the data part is empty (nothing after the separator)
            let empty_data = s.rfind('1').map_or(false, |p| p + 1 == s.len());
            if f.panic_loc.is_some() && empty_data && ctx.is_known(KF_NEW_BECH32_EMPTY) {
                ctx.class("known:new_bech32-empty-data");
            } else {
                return Err(f);
            }
        }
    }
    let _ = g("FromStr impls", n, || {
        let _ = Txid::from_str(s).is_ok();
        let _ = BlockHash::from_str(s).is_ok();
        let _ = AssetId::from_str(s).is_ok();
        let _ = ContractHash::from_str(s).is_ok();
        let _ = OutPoint::from_str(s).is_ok();
        let _ = AssetBlindingFactor::from_str(s).is_ok();
        let _ = ValueBlindingFactor::from_str(s).is_ok();
        let _ = LockTime::from_str(s).is_ok();
        let _ = Sequence::from_str(s).is_ok();
        let _ = elements::EcdsaSighashType::from_str(s).is_ok();
        let _ = SchnorrSighashType::from_str(s).is_ok();
        let _ = pset::PsbtSighashType::from_str(s).is_ok();
        let _ = Script::from_hex(s).is_ok();
        let _ = Script::from_hex_no_prefix(s).is_ok();
        let _ = ContractHash::from_json_contract(s).is_ok();
    })?;
    let _ = g("Pset::from_str", n, || Pset::from_str(s).is_ok())?;
    let _ = g("serde_json -> types", n, || {
        let _ = serde_json::from_str::<Transaction>(s).is_ok();
        let _ = serde_json::from_str::<Address>(s).is_ok();
        let _ = serde_json::from_str::<Value>(s).is_ok();
        let _ = serde_json::from_str::<dynafed::Params>(s).is_ok();
    })?;
    ctx.class(if r { "text:address-parsed" } else { "text:address-rejected" });
    Ok(())
}

fn text_parsers(t: &mut Tape, ctx: &mut Ctx) -> R {
    let mut s = match t.below(8) {
        0 => {
            let n = t.below(40);
            let b = t.bytes(n);
            String::from_utf8_lossy(&b).to_string()
        }
        1 => {
            // bech32-like strings from the alphabet with a separator somewhere
            let n = t.below(30);
            let al = b"qpzry9x8gf2tvdw0s3jn54khce6mua7l1";
            let mut v: Vec<u8> = (0..n).map(|_| al[t.below(al.len())]).collect();
            let hrp = t.choose(&["lq", "el", "tlq", "ex", "ert", "tex", "a", ""]);
            let mut s = hrp.as_bytes().to_vec();
            s.push(b'1');
            s.append(&mut v);
            String::from_utf8_lossy(&s).to_string()
        }
        2 | 3 => {
            let s = checksum_valid_text(t);
            ctx.class("text:checksum-valid-arbitrary-payload");
            // mostly unmutated: the point is to get past the checksum with an arbitrary payload
            if t.below(4) != 0 {
                ctx.eval();
                parse_text(&s, ctx)?;
                ctx.nontrivial(&s);
                return Ok(());
            }
            s
        }
        _ => valid_text(t),
    };
    for _ in 0..t.below(3) {
        mutate_text(t, &mut s);
    }
    ctx.eval();
    parse_text(&s, ctx)?;
    if s.contains('1') || s.len() > 8 {
        ctx.nontrivial(&s);
    }
    if ctx.wants_sample("text") && s.len() > 10 && s.len() < 120 {
        ctx.sample("text", || json!({"text": s}));
    }
    Ok(())
}

// ---- slice parsers ---------------------------------------------------------------------------

fn slice_parsers(t: &mut Tape, ctx: &mut Ctx) -> R {
    let src = t.below(6);
    let b: Vec<u8> = match src {
        0 => {
            let n = t.below(140);
            t.bytes(n)
        }
        1 => gp::gen_control_block(t).map(|c| c.serialize()).unwrap_or_default(),
        2 => gp::gen_schnorr_sig(t).to_vec(),
        3 => {
            let mut v = Vec::new();
            if let Some((tt, _)) = gp::gen_tap_tree(t, 6) {
                use elements::pset::serialize::Serialize;
                v = tt.serialize();
            }
            v
        }
        4 => gen::gen_script(t, false).into_bytes(),
        _ => {
            use elements::pset::serialize::Serialize;
            gp::gen_key_source(t).serialize()
        }
    };
    let mut b = b;
    for _ in 0..t.below(3) {
        mutate::mutate_once(t, &mut b, &Default::default());
    }
    let n = b.len();
    ctx.eval();
    g("ControlBlock::from_slice", n, || {
        ControlBlock::from_slice(&b).map(|c| {
            let _ = (c.size(), c.serialize().len());
            let k = elements::schnorr::TweakedPublicKey::new(pool().pubkeys[0].x_only_public_key().0);
            let _ = c.verify_taproot_commitment(secp(), &k, &Script::from(vec![0x51]));
        }).is_ok()
    })?;
    g("TaprootMerkleBranch::from_slice", n, || TaprootMerkleBranch::from_slice(&b).map(|m| m.serialize().len()).is_ok())?;
    g("SchnorrSig::from_slice", n, || SchnorrSig::from_slice(&b).map(|s| s.to_vec().len()).is_ok())?;
    g("pset Deserialize impls", n, || {
        let _ = <pset::TapTree as PsetDeserialize>::deserialize(&b).is_ok();
        let _ = <elements::bitcoin::bip32::KeySource as PsetDeserialize>::deserialize(&b).is_ok();
        let _ = <(Vec<elements::taproot::TapLeafHash>, elements::bitcoin::bip32::KeySource) as PsetDeserialize>::deserialize(&b).is_ok();
        let _ = <(Script, elements::taproot::LeafVersion) as PsetDeserialize>::deserialize(&b).is_ok();
        let _ = <(elements::bitcoin::key::XOnlyPublicKey, elements::taproot::TapLeafHash) as PsetDeserialize>::deserialize(&b).is_ok();
        let _ = <SchnorrSig as PsetDeserialize>::deserialize(&b).is_ok();
        let _ = <ControlBlock as PsetDeserialize>::deserialize(&b).is_ok();
        let _ = <Value as PsetDeserialize>::deserialize(&b).is_ok();
        let _ = <Asset as PsetDeserialize>::deserialize(&b).is_ok();
        let _ = <pset::PsbtSighashType as PsetDeserialize>::deserialize(&b).is_ok();
        let _ = <elements::bitcoin::PublicKey as PsetDeserialize>::deserialize(&b).is_ok();
        let _ = <elements::bitcoin::Transaction as PsetDeserialize>::deserialize(&b).is_ok();
        let _ = <Box<elements::secp256k1_zkp::RangeProof> as PsetDeserialize>::deserialize(&b).is_ok();
        let _ = <Box<elements::secp256k1_zkp::SurjectionProof> as PsetDeserialize>::deserialize(&b).is_ok();
        let _ = <AssetBlindingFactor as PsetDeserialize>::deserialize(&b).is_ok();
        let _ = <elements::secp256k1_zkp::Tweak as PsetDeserialize>::deserialize(&b).is_ok();
        let _ = <Vec<Vec<u8>> as PsetDeserialize>::deserialize(&b).is_ok();
        let _ = <Transaction as PsetDeserialize>::deserialize(&b).is_ok();
        let _ = <TxOut as PsetDeserialize>::deserialize(&b).is_ok();
    })?;
    g("ELIP-100 records", n, || {
        let _ = pset::elip100::AssetMetadata::deserialize(&b).map(|m| (m.contract().len(), m.issuance_prevout(), m.serialize().len())).is_ok();
        let _ = pset::elip100::TokenMetadata::deserialize(&b).map(|m| (*m.asset_id(), m.issuance_blinded(), m.serialize().len())).is_ok();
    })?;
    g("script readers", n, || {
        let _ = script::read_scriptint(&b).is_ok();
        let _ = script::read_scriptbool(&b);
        for size in 0..=8usize {
            let _ = script::read_uint(&b, size).is_ok();
        }
    })?;
    g("from_slice / from_commitment constructors", n, || {
        let _ = AssetBlindingFactor::from_slice(&b).is_ok();
        let _ = ValueBlindingFactor::from_slice(&b).is_ok();
        let _ = Value::from_commitment(&b).is_ok();
        let _ = Asset::from_commitment(&b).is_ok();
        let _ = Nonce::from_commitment(&b).is_ok();
        let _ = elements::taproot::LeafVersion::from_u8(b.first().copied().unwrap_or(0)).is_ok();
        let _ = elements::sighash::Annex::new(&b).map(|a| a.as_bytes().len()).is_ok();
    })?;
    // pegin witness: six items cut from the bytes
    let mut items: Vec<Vec<u8>> = Vec::new();
    let mut rest = &b[..];
    let k = t.below(8);
    for i in 0..k {
        let l = match i {
            0 => 8,
            1 | 2 => 32,
            5 => 80 + t.below(10),
            _ => t.below(20),
        }
        .min(rest.len());
        let l = if t.chance(30) { l.saturating_sub(1) } else { l };
        items.push(rest[..l].to_vec());
        rest = &rest[l..];
    }
    g("PeginData::from_pegin_witness", n, || {
        let prev = elements::bitcoin::OutPoint::null();
        PeginData::from_pegin_witness(&items, prev).map(|p| (p.parse_tx().is_ok(), p.parse_merkle_proof().is_ok(), p.to_pegin_witness().len())).is_ok()
    })?;
    script_accessors(&Script::from(b.clone()))?;
    ctx.class(&format!("slice-source:{}", src));
    if n >= 4 {
        ctx.nontrivial(&b);
    }
    Ok(())
}

// ---- (3) fallible operations on structurally valid, semantically arbitrary arguments --------

fn op_blind(t: &mut Tape, ctx: &mut Ctx) -> R {
    // from a balanced case, made arbitrary
    let case = ct::gen_ct_case(t, true);
    let mut tx = case.tx.clone();
    let mut secrets = case.secrets.clone();
    let variant = t.below(8);
    match variant {
        0 => {
            // no output marked
            for o in tx.output.iter_mut() {
                o.nonce = Nonce::Null;
            }
        }
        1 => {
            // zero value on a marked output
            if let Some(o) = tx.output.iter_mut().find(|o| o.nonce.v_conf()) {
                o.value = Value::Explicit(0);
            }
        }
        2 => {
            // a marked output on a script that is no address
            if let Some(o) = tx.output.iter_mut().find(|o| o.nonce.v_conf()) {
                o.script_pubkey = gen::gen_script(t, false);
            }
        }
        3 => {
            // secret count mismatch
            if t.bool() {
                secrets.pop();
            } else {
                secrets.push(secrets[0]);
            }
        }
        4 => {
            // already confidential output
            if let Some(o) = tx.output.first_mut() {
                o.value = Value::Confidential(pool().commitments[0]);
            }
        }
        5 => {
            // secrets that are not the true ones
            for s in secrets.iter_mut() {
                s.value = t.edgy_u64();
            }
        }
        6 => {
            tx.output.clear();
        }
        _ => {
            // every output marked, including fee-like ones
            let pk = pool().pubkeys[3];
            for o in tx.output.iter_mut() {
                o.nonce = Nonce::Confidential(pk);
            }
        }
    }
    let mut rng = ChaCha20Rng::from_seed(case.rng_seed);
    let blind_iss = t.bool();
    let marked = tx.output.iter().filter(|o| !o.is_fee() && o.nonce.v_conf()).count();
    let r = guard::guard("Transaction::blind", 0, || tx.blind(&mut rng, secp(), &secrets, blind_iss).is_ok());
    ctx.eval();
    match r {
        Ok(_) => {}
        Err(f) => {
            if f.panic_loc.is_some() && marked == 0 && ctx.is_known(KF_BLIND_NO_MARKED) {
                ctx.class("known:blind-without-marked-output");
                return Ok(());
            }
            return Err(Failure { msg: format!("variant {} (marked outputs: {}): {}", variant, marked, f.msg), panic_loc: f.panic_loc });
        }
    }
    // whatever came out: verification and unblinding must not panic either
    g("verify_tx_amt_proofs", 0, || tx.verify_tx_amt_proofs(secp(), &case.spent).is_ok())?;
    let mut spent = case.spent.clone();
    if t.bool() {
        spent.push(gen::gen_txout(t, &TxOpts::default()));
    }
    for s in spent.iter_mut() {
        if t.chance(60) {
            *s = gen::gen_txout(t, &TxOpts { big: false, ..TxOpts::default() });
        }
    }
    g("verify_tx_amt_proofs(arbitrary spent)", 0, || tx.verify_tx_amt_proofs(secp(), &spent).is_ok())?;
    for o in &tx.output {
        let sk = pool().seckeys[t.below(pool().seckeys.len())];
        g("TxOut::unblind(wrong key)", 0, || o.unblind(secp(), sk).is_ok())?;
    }
    for i in tx.input.iter_mut().take(2) {
        let mut rng2 = ChaCha20Rng::from_seed(case.rng_seed);
        g("blind_issuances", 0, || i.blind_issuances(secp(), &mut rng2).is_ok())?;
    }
    ctx.class(&format!("op:blind:variant{}", variant));
    Ok(())
}

fn op_verify_arbitrary(t: &mut Tape, ctx: &mut Ctx) -> R {
    let o = TxOpts { big: false, ..TxOpts::default() };
    let tx = gen::gen_tx(t, &o);
    let n = if t.chance(200) { tx.input.len() } else { t.below(5) };
    let spent: Vec<TxOut> = (0..n).map(|_| gen::gen_txout(t, &o)).collect();
    ctx.eval();
    g("verify_tx_amt_proofs(arbitrary tx)", 0, || tx.verify_tx_amt_proofs(secp(), &spent).is_ok())?;
    tx_accessors(&tx, 0)?;
    ctx.class("op:verify-arbitrary");
    Ok(())
}

fn op_pset(t: &mut Tape, ctx: &mut Ctx) -> R {
    let mut p = gp::gen_pset(t, &PsetOpts::default());
    // structural edits through the public API
    for _ in 0..t.below(4) {
        match t.below(6) {
            0 => {
                let k = t.below(p.inputs().len() + 2);
                let _ = g("remove_input", 0, || p.remove_input(k).is_some())?;
            }
            1 => {
                let k = t.below(p.outputs().len() + 2);
                let _ = g("remove_output", 0, || p.remove_output(k).is_some())?;
            }
            // (insert_input / insert_output do not report failure through Result / Option and document a
            // panic; they are outside the statement and not called here)
            2 => {
                let i = gp::gen_input(t, 60);
                g("add_input", 0, || p.add_input(i))?;
            }
            3 => {
                let o = gp::gen_output(t, 60, p.inputs().len());
                g("add_output", 0, || p.add_output(o))?;
            }
            4 => {
                for o in p.outputs_mut() {
                    if t.bool() {
                        o.blinder_index = Some(t.edgy_u32());
                    }
                    if t.chance(40) {
                        // a state the PSET decoder refuses (no amount at all): from here on only the fallible
                        // entry points are exercised on this value (see `pset_sweep`)
                        o.amount = None;
                        o.amount_comm = None;
                    }
                }
            }
            _ => {
                p.global.scalars.push(gen::gen_tweak(t));
            }
        }
    }
    ctx.eval();
    pset_sweep(&p, true, ctx)?;
    // blinding entry points with arbitrary secret maps
    let mut secrets: HashMap<usize, TxOutSecrets> = HashMap::new();
    for _ in 0..t.below(4) {
        let idx = if t.chance(200) { t.below(p.inputs().len() + 1) } else { t.edgy_u32() as usize };
        secrets.insert(idx, TxOutSecrets::new(gen::gen_asset_id(t), ct::abf_from(t, 3), t.edgy_u64(), ct::vbf_from(t, 4)));
    }
    g("surjection_inputs", 0, || p.surjection_inputs(&secrets).is_ok())?;
    let seed = t.arr32();
    let mut q = p.clone();
    g("blind_non_last", 0, || q.blind_non_last(&mut ChaCha20Rng::from_seed(seed), secp(), &secrets).is_ok())?;
    let mut q = p.clone();
    let blinded = g("blind_last", 0, || q.blind_last(&mut ChaCha20Rng::from_seed(seed), secp(), &secrets).is_ok())?;
    // a blinding call that stops half way may leave an output partially blinded (refused by the decoder)
    pset_sweep(&q, blinded, ctx)?;
    // merge with an arbitrary other PSET and with a sibling
    let other = gp::gen_pset(t, &PsetOpts::default());
    let mut a = p.clone();
    g("merge(arbitrary)", 0, || a.merge(other).is_ok())?;
    let mut sib = p.clone();
    for (_, ks) in sib.global.xpub.iter_mut() {
        *ks = gp::gen_key_source(t);
    }
    sib.global.xpub.insert(gp::gen_xpub(t), gp::gen_key_source(t));
    let mut a = p.clone();
    g("merge(sibling with other key sources)", 0, || a.merge(sib).is_ok())?;
    ctx.class("op:pset");
    Ok(())
}

fn op_taproot(t: &mut Tape, ctx: &mut Ctx) -> R {
    let p = pool();
    ctx.eval();
    // arbitrary builder histories
    let mut b = TaprootBuilder::new();
    let steps = t.below(12);
    let mut alive = true;
    for _ in 0..steps {
        let depth = match t.below(6) {
            0 => t.below(3),
            1 => 127 + t.below(4),
            2 => usize::from(t.u8()),
            3 => usize::MAX - t.below(2),
            _ => t.below(8),
        };
        let hidden = t.chance(50);
        let script = gen::gen_script(t, false);
        let h = elements::taproot::TapNodeHash::from_byte_array(t.arr32());
        let cur = std::mem::replace(&mut b, TaprootBuilder::new());
        let r = g("TaprootBuilder::add_*", 0, || if hidden { cur.add_hidden(depth, h) } else { cur.add_leaf(depth, script) })?;
        match r {
            Ok(nb) => b = nb,
            Err(_) => {
                alive = false;
                break;
            }
        }
    }
    if alive {
        let key = p.pubkeys[t.below(p.pubkeys.len())].x_only_public_key().0;
        let _ = g("TaprootBuilder::is_complete", 0, || b.is_complete())?;
        let r = g("TaprootBuilder::finalize", 0, || b.finalize(secp(), key))?;
        if let Ok(info) = r {
            g("TaprootSpendInfo accessors", 0, || {
                let _ = (info.output_key(), info.output_key_parity(), info.merkle_root(), info.tap_tweak(), info.internal_key());
                for (k, _) in info.as_script_map() {
                    let _ = info.control_block(k).map(|c| c.serialize().len());
                }
            })?;
        }
    }
    // Huffman with arbitrary weight lists
    let n = match t.below(5) {
        0 => 0,
        1 => 1,
        2 => t.below(300),
        _ => t.below(12),
    };
    let mode = t.below(4);
    let weights: Vec<(u32, Script)> = (0..n)
        .map(|i| {
            let w = match mode {
                0 => 0,
                1 => u32::MAX,
                2 => t.edgy_u32(),
                _ => t.u8() as u32,
            };
            (w, Script::from(vec![0x51, (i % 251) as u8, (i / 251) as u8]))
        })
        .collect();
    let key = p.pubkeys[0].x_only_public_key().0;
    let r = g("with_huffman_tree", 0, || TaprootSpendInfo::with_huffman_tree(secp(), key, weights.clone()))?;
    if let Ok(info) = r {
        g("huffman control blocks", 0, || {
            for (k, _) in info.as_script_map() {
                let _ = info.control_block(k).map(|c| c.size());
            }
        })?;
    }
    ctx.class(&format!("op:taproot:huffman-leaves:{}", if n == 0 { "0" } else if n == 1 { "1" } else if n > 16 { ">16" } else { "2..16" }));
    Ok(())
}

fn op_sighash(t: &mut Tape, ctx: &mut Ctx) -> R {
    let case = super::c03::gen_case(t);
    let tx = &case.tx;
    let mut cache = SighashCache::new(tx);
    let n = tx.input.len();
    ctx.eval();
    for _ in 0..(1 + t.below(4)) {
        // indices out of range, mismatched prevouts, arbitrary annex bytes
        let idx = match t.below(4) {
            0 => n + t.below(3),
            1 => usize::MAX - t.below(2),
            _ => t.below(n),
        };
        let ty = t.choose(&super::c03::SCHNORR_TYPES);
        let plen = match t.below(4) {
            0 => 0,
            1 => n + 1,
            _ => n,
        };
        let spent: Vec<TxOut> = (0..plen).map(|k| case.spent.get(k).cloned().unwrap_or_default()).collect();
        let one = case.spent[0].clone();
        let one_idx = if t.bool() { idx } else { t.below(n + 2) };
        let annex_bytes = {
            let l = t.below(20);
            let mut a = t.bytes(l);
            if t.chance(200) && !a.is_empty() {
                a[0] = 0x50;
            }
            a
        };
        let use_one = t.chance(80);
        let genesis = BlockHash::from_byte_array(t.arr32());
        let leaf = if t.bool() { Some((elements::taproot::TapLeafHash::from_byte_array(t.arr32()), t.edgy_u32())) } else { None };
        g("taproot_sighash(arbitrary)", 0, || {
            let annex = elements::sighash::Annex::new(&annex_bytes).ok();
            let refs: Vec<&TxOut> = spent.iter().collect();
            if use_one {
                let p = Prevouts::One(one_idx, &one);
                let _ = cache.taproot_sighash(idx, &p, annex.clone(), leaf, ty, genesis).is_ok();
                let _ = cache.taproot_key_spend_signature_hash(idx, &p, ty, genesis).is_ok();
                let mut sink = Vec::new();
                let _ = cache.taproot_encode_signing_data_to(&mut sink, idx, &p, annex, leaf, ty, genesis).is_ok();
            } else {
                let p = Prevouts::All(&refs);
                let _ = cache.taproot_sighash(idx, &p, annex.clone(), leaf, ty, genesis).is_ok();
                let _ = cache.taproot_script_spend_signature_hash(idx, &p, elements::taproot::TapLeafHash::from_byte_array([1; 32]), ty, genesis).is_ok();
                let mut sink = Vec::new();
                let _ = cache.taproot_encode_signing_data_to(&mut sink, idx, &p, annex, leaf, ty, genesis).is_ok();
            }
        })?;
    }
    ctx.class("op:taproot-sighash-arbitrary");
    Ok(())
}

fn operations(t: &mut Tape, ctx: &mut Ctx) -> R {
    match t.below(8) {
        0 | 1 => op_blind(t, ctx),
        2 => op_verify_arbitrary(t, ctx),
        3 | 4 => op_pset(t, ctx),
        5 => op_taproot(t, ctx),
        _ => op_sighash(t, ctx),
    }?;
    ctx.nontrivial(&t.consumed());
    Ok(())
}

// ---- unblinding of outputs whose range proof rewinds for the receiver but is not of the usual shape --------

/// A sender who knows the receiver's blinding key can make any range proof rewind for the receiver: exact-value
/// and few-bit proofs (whose embedded message is short or empty), messages of any length and content, other
/// minimum values. `TxOut::unblind` must answer every one of them with Ok or Err.
fn unblind_crafted(t: &mut Tape, ctx: &mut Ctx) -> R {
    use elements::secp256k1_zkp::{Generator, PedersenCommitment, RangeProof};
    let p = pool();
    let s = secp();
    ctx.eval();
    let recv = t.below(p.seckeys.len());
    let eph = t.below(p.seckeys.len());
    let nonce = Nonce::Confidential(p.pubkeys[eph]);
    // the secret both sides derive (ECDH is symmetric): ask the library from the sender's side
    let Some(shared) = guard::guard("Nonce::shared_secret", 0, || Nonce::Confidential(p.pubkeys[recv]).shared_secret(&p.seckeys[eph]))? else {
        return Ok(());
    };
    let asset = p.assets[t.below(p.assets.len())];
    let abf = p.tweaks[t.below(p.tweaks.len())];
    let vbf = p.tweaks[t.below(p.tweaks.len())];
    let g = Generator::new_blinded(s, asset.into_tag(), abf);
    let value = match t.below(4) {
        0 => 1,
        1 => 1 + u64::from(t.u8()),
        2 => 1u64 << t.below(52),
        _ => 1 + t.edgy_u64() % ((1u64 << 51) - 1),
    };
    let comm = PedersenCommitment::new(s, value, vbf, g);
    let spk = if t.bool() { gen::gen_script(t, false) } else { Script::new() };
    // what the proof embeds: the regular 64 bytes (asset || abf), a wrong 64 bytes, or 0..=100 arbitrary bytes
    let mut msg: Vec<u8> = Vec::new();
    let mkind = t.below(6);
    match mkind {
        0 => {
            msg.extend_from_slice(asset.into_tag().as_ref());
            msg.extend_from_slice(abf.as_ref());
        }
        1 => msg = t.bytes(64),
        2 => {}
        _ => {
            let n = t.choose(&[1usize, 31, 32, 33, 63, 65, 96, 100]);
            msg = t.bytes(n);
        }
    }
    let (min_value, exp, min_bits, shape): (u64, i32, u8, &str) = match t.below(5) {
        0 => (1, 0, 52, "regular"),
        1 => (value, -1, 0, "exact-value"),
        2 => (value, 0, 1 + t.below(3) as u8, "few-bits"),
        3 => (0, 0, 36, "min-0-36-bits"),
        _ => (1, t.below(4) as i32, 32 + t.below(30) as u8, "other"),
    };
    let rp = guard::guard("RangeProof::new (harness side)", 0, || RangeProof::new(s, min_value, comm, value, vbf, &msg, spk.as_bytes(), shared, exp, min_bits, g));
    let Ok(Ok(rp)) = rp else {
        ctx.class("unblind-crafted:proof-not-constructible");
        return Ok(());
    };
    let mut out = TxOut { asset: Asset::Confidential(g), value: Value::Confidential(comm), nonce, script_pubkey: spk, witness: Default::default() };
    out.witness.rangeproof = Some(Box::new(rp));
    let sk = p.seckeys[recv];
    let r = guard::guard("TxOut::unblind", msg.len(), || out.unblind(s, sk).map(|x| (x.value, x.asset)))?;
    ctx.class(&format!("unblind-crafted:{}:message-{}-bytes:{}", shape, msg.len(), if r.is_ok() { "ok" } else { "err" }));
    ctx.nontrivial(&(shape, msg.len(), value, mkind));
    if ctx.wants_sample("unblind-crafted") {
        ctx.sample("unblind-crafted", || json!({"proof": shape, "message_bytes": msg.len(), "value": value, "result": format!("{:?}", r.as_ref().map_err(|e| e.to_string()))}));
    }
    Ok(())
}

/// raw bytes (fuzz entry and replay format): first byte selects the decoder
fn raw_bytes(t: &mut Tape, ctx: &mut Ctx) -> R {
    let ty = usize::from(t.u8()) % N_DECODERS;
    let n = t.remaining();
    let b = t.bytes(n);
    ctx.eval();
    let ok = decode_as(ty, &b)?;
    ctx.class(&format!("raw:{}:{}", ty, if ok { "ok" } else { "err" }));
    if b.len() >= 8 {
        ctx.nontrivial(&(ty, &b));
    }
    Ok(())
}
/// raw text (fuzz entry and replay format)
fn raw_text(t: &mut Tape, ctx: &mut Ctx) -> R {
    let n = t.remaining();
    let b = t.bytes(n);
    let s = String::from_utf8_lossy(&b).to_string();
    ctx.eval();
    parse_text(&s, ctx)?;
    // the bytes also go through the slice parsers' script path
    script_accessors(&Script::from(b))?;
    if s.len() > 8 {
        ctx.nontrivial(&s);
    }
    Ok(())
}

/// the repository vectors and their decoded values through every accessor (replay tier)
fn corpus(idx: u64, _seed: u64, ctx: &mut Ctx) -> R {
    let mut files = c01::corpus_tx_files();
    files.extend(super::c07::corpus_psets());
    if files.is_empty() {
        return Ok(());
    }
    let (name, b) = &files[idx as usize % files.len()];
    ctx.eval();
    for ty in [0, 1, 2, 4, 5] {
        let ok = decode_as(ty, b)?;
        if ok {
            ctx.class(&format!("corpus-decoded-as:{}", ty));
        }
    }
    ctx.nontrivial(name);
    Ok(())
}

// =============================================================================================
// Sub-checks added after review g7: structured hostile inputs that get past the first gate
// =============================================================================================

/// Largest single allocation the documented caps allow a consensus decoder for an input of `len` bytes:
/// one vector of at most MAX_VEC_SIZE = 4,000,000 bytes (`encode.rs`), for a PSET 10,000 pre-allocated maps
/// (`pset/mod.rs`), plus what is proportional to the input (growth by doubling, Debug / JSON text of the
/// decoded value in the accessor sweep).
fn legal_single_alloc(ty: usize, len: usize) -> usize {
    let pset_cap = if ty == 4 { 10_000 * std::mem::size_of::<pset::Input>().max(std::mem::size_of::<pset::Output>()) } else { 0 };
    // A PSET input can hold a *bitcoin* transaction (`pegin_tx`), decoded by rust-bitcoin: its `Witness` decoder
    // reserves 4 bytes of index per declared element (up to 4 000 000 elements = 16 MB) and doubles once when the
    // first element is read, i.e. up to ~32 MB for a short input. That allocation is bounded by a constant and lies
    // inside the dependency, not in this library's length checks (found by the thorough tier of `alloc_caps`; see
    // DESIGN.md section 6): the types that embed that decoder keep the guard's general 64 MiB bound.
    if ty == 4 || ty == 20 {
        return 64 << 20;
    }
    pset_cap.max(4_000_000) + (1 << 20) + 64 * len
}

/// `decode_as` under one outer guard, with the allocation bound the caps imply instead of the generic 64 MiB
fn decode_tight(ty: usize, b: &[u8], what: &str) -> Result<bool, Failure> {
    let r = guard::guard("decoder + accessors", b.len(), || decode_as(ty, b))??;
    let (max_req, _) = guard::last_alloc_stats();
    let limit = legal_single_alloc(ty, b.len());
    if max_req > limit {
        return Err(Failure::new(format!(
            "decoder #{} ({}): a single allocation request of {} bytes for an input of {} bytes; the documented caps (4,000,000 bytes per \
             vector, 10,000 PSET maps) plus 64 bytes per input byte allow {} - the length / count check in front of the allocation is missing \
             or too loose. input = {}",
            ty,
            what,
            max_req,
            b.len(),
            limit,
            hex(&b[..b.len().min(200)])
        )));
    }
    Ok(r)
}

// ---- (5) PSET encodings edited at the level of key-value pairs (framing intact) ---------------

fn pset_framed(t: &mut Tape, ctx: &mut Ctx) -> R {
    // the bytes that decide the edit are read first, so that a tape used up by the PSET does not bias the edit
    let choices = t.bytes(64);
    let p = gp::gen_pset(t, &PsetOpts { max_in: 2, max_out: 2, extractable: false });
    let t = &mut Tape::new(&choices);
    let b = g("serialize(pset)", 0, || serialize(&p))?;
    let Some(mut maps) = psetraw::split(&b) else {
        return Err(Failure::panic("harness: the raw splitter cannot split a library encoding".into(), "src/props/c10.rs".into()));
    };
    ctx.eval();
    if t.below(8) < 3 {
        // a well-framed declared count above the number of maps that follow
        let output = t.bool();
        let present = if output { p.outputs().len() } else { p.inputs().len() } as u64;
        let k = t.below(xg::DECLARED_COUNTS.len() + 2);
        let value = if k < 2 { present + 1 + k as u64 } else { xg::DECLARED_COUNTS[k - 2] };
        if !xg::set_declared_count(&mut maps, output, value) {
            return Err(Failure::panic("harness: no count pair in the global map".into(), "src/props/c10.rs".into()));
        }
        if t.bool() {
            // the other count as well
            let v2 = xg::DECLARED_COUNTS[t.below(xg::DECLARED_COUNTS.len())];
            xg::set_declared_count(&mut maps, !output, v2);
        }
        match t.below(4) {
            0 => maps.truncate(1), // nothing follows the global map
            1 => {
                let keep = 1 + t.below(maps.len());
                maps.truncate(keep);
            }
            _ => {}
        }
        let bytes = psetraw::join(&maps);
        let ok = decode_tight(4, &bytes, "PartiallySignedTransaction, declared count rewritten")?;
        ctx.class(&format!(
            "pset:declared-{}-count:{}:{}",
            if output { "output" } else { "input" },
            if value > 10_000 { ">10000" } else if value > present { ">actual" } else { "<=actual" },
            if ok { "ok" } else { "err" }
        ));
        if value > present {
            ctx.class("pset:declared-count>actual");
        }
        ctx.nontrivial(&bytes);
        return Ok(());
    }
    let mut ops: Vec<&'static str> = Vec::new();
    for _ in 0..1 + t.below(2) {
        ops.push(xg::pset_pair_mutation(t, &mut maps));
    }
    let bytes = psetraw::join(&maps);
    let ok = decode_tight(4, &bytes, "PartiallySignedTransaction, pair-level edit")?;
    // the single maps through their own decoders as well
    if let Some(m) = maps.first() {
        let gb = &psetraw::join(std::slice::from_ref(m))[5..];
        let _ = decode_as(22, gb)?;
    }
    if maps.len() > 1 {
        let k = 1 + t.below(maps.len() - 1);
        let mb = &psetraw::join(std::slice::from_ref(&maps[k]))[5..];
        let _ = decode_as(20, mb)?;
        let _ = decode_as(21, mb)?;
    }
    ctx.class(&format!("pset-pair-op:{}:{}", ops[0], if ok { "ok" } else { "err" }));
    ctx.nontrivial(&bytes);
    if ctx.wants_sample("pset-pair-op") && bytes.len() < 300 {
        ctx.sample("pset-pair-op", || json!({"ops": ops, "decoded": ok, "pset_hex": hex(&bytes)}));
    }
    Ok(())
}

// ---- (6) pegout scripts, pegin witnesses, instruction-level scripts ------------------------------

fn structured_scripts(t: &mut Tape, ctx: &mut Ctx) -> R {
    ctx.eval();
    match t.below(3) {
        0 => {
            let (script, label) = xg::gen_pegout_script(t);
            let mut sb = script.into_bytes();
            if t.chance(30) {
                mutate::mutate_once(t, &mut sb, &Default::default());
            }
            let o = TxOut {
                asset: gen::gen_asset(t),
                value: if t.chance(40) { gen::gen_value(t) } else { Value::Explicit(t.edgy_u64()) },
                nonce: gen::gen_nonce(t),
                script_pubkey: Script::from(sb.clone()),
                witness: TxOutWitness::empty(),
            };
            let n = sb.len();
            let (null_data, pegout) = g("TxOut::{is_null_data, is_pegout, pegout_data, minimum_value}", n, || {
                let pd = o.pegout_data();
                let seen = pd.as_ref().map(|p| (p.extra_data.len(), p.extra_data.iter().map(|e| e.len()).sum::<usize>(), p.script_pubkey.len(), p.genesis_hash, p.value, p.asset, format!("{:?}", p).len()));
                let _ = (o.is_fee(), o.minimum_value(), o.is_partially_blinded());
                (o.is_null_data(), o.is_pegout() && seen.is_some())
            })?;
            script_accessors(&o.script_pubkey)?;
            // and through the transaction decoder
            let tx = Transaction { version: 2, lock_time: LockTime::ZERO, input: vec![], output: vec![o] };
            let b = g("serialize(tx)", n, || serialize(&tx))?;
            let _ = decode_as(0, &b)?;
            ctx.class(label);
            ctx.class(if pegout { "pegout_data:Some" } else if null_data { "pegout_data:None:null-data" } else { "pegout_data:None:not-null-data" });
            ctx.nontrivial(&sb);
        }
        1 => {
            let (items, label) = xg::gen_pegin_witness(t);
            let n: usize = items.iter().map(|i| i.len()).sum();
            let prev = elements::bitcoin::OutPoint { txid: <elements::bitcoin::Txid as elements::bitcoin::hashes::Hash>::from_byte_array(t.arr32()), vout: t.edgy_u32() };
            let r = g("PeginData::from_pegin_witness", n, || {
                PeginData::from_pegin_witness(&items, prev).map(|p| (p.parse_tx().is_ok(), p.parse_merkle_proof().is_ok(), p.to_pegin_witness().len(), p.referenced_block, p.value, format!("{:?}", p).len()))
            })?;
            ctx.class(label);
            match &r {
                Ok((tx_ok, proof_ok, ..)) => {
                    ctx.class("from_pegin_witness:Ok");
                    if *tx_ok {
                        ctx.class("pegin:parse_tx:Ok");
                    }
                    if *proof_ok {
                        ctx.class("pegin:parse_merkle_proof:Ok");
                    }
                }
                Err(e) => ctx.class(&format!("from_pegin_witness:Err:{}", e)),
            }
            // the same witness on an input marked as pegin, through the accessors and the decoder
            let i = TxIn {
                previous_output: OutPoint { txid: gen::gen_txid(t), vout: gen::gen_vout(t) },
                is_pegin: !t.chance(20),
                script_sig: Script::new(),
                sequence: Sequence::MAX,
                asset_issuance: AssetIssuance::null(),
                witness: TxInWitness { amount_rangeproof: None, inflation_keys_rangeproof: None, script_witness: vec![], pegin_witness: items.clone() },
            };
            let tx = Transaction { version: 2, lock_time: LockTime::ZERO, input: vec![i], output: vec![] };
            tx_accessors(&tx, n)?;
            let b = g("serialize(tx)", n, || serialize(&tx))?;
            let _ = decode_as(0, &b)?;
            ctx.nontrivial(&items);
        }
        _ => {
            let (bytes, label) = xg::gen_instr_script(t);
            script_accessors(&Script::from(bytes.clone()))?;
            // minimal-push iteration and assembly on the same bytes behind a script length prefix
            let mut enc = Vec::new();
            crate::refimpl::enc::compact_size(&mut enc, bytes.len() as u64);
            enc.extend_from_slice(&bytes);
            let _ = decode_as(15, &enc)?;
            ctx.class(label);
            ctx.nontrivial(&bytes);
        }
    }
    Ok(())
}

// ---- (7) length prefixes just above the caps, at the recorded positions ---------------------------

const ALLOC_BOMBS: [(&[u8], &str); 10] = [
    (&[0xfe, 0x01, 0x09, 0x3d, 0x00], "4000001"),
    (&[0xfe, 0x00, 0x12, 0x7a, 0x00], "8000000"),
    (&[0xfe, 0x00, 0x00, 0x00, 0x02], "32Mi"),
    (&[0xfd, 0xff, 0xff], "65535"),
    (&[0xfe, 0xa0, 0x86, 0x01, 0x00], "100000"),
    (&[0xfe, 0x00, 0x09, 0x3d, 0x00], "4000000"),
    (&[0xfe, 0x40, 0x42, 0x0f, 0x00], "1000000"),
    (&[0xfe, 0x00, 0x00, 0x00, 0x01], "16Mi"),
    (&[0xff, 0x40, 0x4b, 0x4c, 0x00, 0x00, 0x00, 0x00, 0x00], "5000000-as-u64"),
    (&[0xfe, 0xff, 0xff, 0xff, 0x03], "64Mi-1"),
];

fn alloc_caps(t: &mut Tape, ctx: &mut Ctx) -> R {
    let ty = t.choose(&[0usize, 0, 0, 1, 5, 6, 7, 8, 9, 26, 27, 3, 2, 15, 4, 20, 21, 24, 13, 28, 29, 23]);
    let choices = t.bytes(24);
    let Some((mut b, l)) = valid_encoding(t, ty) else { return Ok(()) };
    let t = &mut Tape::new(&choices);
    let (bomb, name) = ALLOC_BOMBS[t.below(ALLOC_BOMBS.len())];
    // replace a recorded compact size (the element counts and byte lengths of the encoding) by the bomb; types
    // without a recorded layout carry their count in front
    let at_cs = !l.cs.is_empty() && t.chance(230);
    let pos = if at_cs {
        l.cs[t.below(l.cs.len())]
    } else if matches!(ty, 26 | 27 | 15 | 28 | 29) && t.chance(200) {
        0
    } else {
        t.below(b.len() + 1)
    };
    let pos = pos.min(b.len());
    let width = match b.get(pos) {
        Some(0xfd) => 3,
        Some(0xfe) => 5,
        Some(0xff) => 9,
        Some(_) => 1,
        None => 0,
    };
    let replace = at_cs || pos == 0;
    let end = if replace { (pos + width).min(b.len()) } else { pos };
    b.splice(pos..end, bomb.iter().copied());
    if t.chance(60) {
        // nothing behind the prefix
        b.truncate(pos + bomb.len());
    }
    ctx.eval();
    let ok = decode_tight(ty, &b, "length prefix replaced")?;
    ctx.class(&format!("alloc-bomb:{}:{}", name, if at_cs { "at-recorded-compact-size" } else if pos == 0 { "in-front" } else { "spliced" }));
    ctx.class(&format!("alloc-bomb:decoder:{}:{}", ty, if ok { "ok" } else { "err" }));
    ctx.nontrivial(&(ty, &b));
    Ok(())
}

// ---- (8) serde deserializers on token-level mutants of valid JSON / CBOR ---------------------------

pub const KF_PARAMS_CBOR_PREALLOC: &str = "dynafed-params-hexbytes-visit-seq-preallocates-declared-length";
pub const KF_BUILDER_SERDE_INVARIANT: &str = "taproot-builder-from-serde-breaks-finalize-invariant";
pub const KF_COMMITMENT_SERDE_SHORT: &str = "commitment-deserialized-from-short-cbor-bytes-reads-out-of-bounds";

/// bound on a single allocation while deserializing `len` bytes of JSON / CBOR (serde's own containers cap their
/// pre-allocation at 1 MiB; everything else is proportional to the text)
fn serde_alloc_limit(len: usize) -> usize {
    (4 << 20) + 64 * len
}

fn serde_guard<T>(what: &str, len: usize, f: impl FnOnce() -> T) -> Result<T, Failure> {
    let r = guard::guard(what, len, f)?;
    let (max_req, _) = guard::last_alloc_stats();
    if max_req > serde_alloc_limit(len) {
        return Err(Failure::new(format!("{}: a single allocation request of {} bytes while deserializing {} bytes (bound {})", what, max_req, len, serde_alloc_limit(len))));
    }
    Ok(r)
}

/// feed one document to the deserializers of `T`; a value that comes out is serialized again. Returns whether any call succeeded.
fn serde_feed<T: serde::de::DeserializeOwned + serde::Serialize>(name: &str, json: Option<&str>, cbor: Option<&[u8]>, post: &dyn Fn(&T)) -> Result<bool, Failure> {
    let mut any = false;
    if let Some(s) = json {
        let what = format!("serde_json::from_str::<{}> on {}", name, prefix_of(s));
        any |= serde_guard(&what, s.len(), || {
            let a = serde_json::from_str::<T>(s).map(|v| {
                let _ = serde_json::to_string(&v).map(|x| x.len());
                post(&v);
            });
            let b = serde_json::from_reader::<_, T>(s.as_bytes()).map(|v| {
                let _ = serde_cbor::to_vec(&v).map(|x| x.len());
            });
            a.is_ok() || b.is_ok()
        })?;
    }
    if let Some(c) = cbor {
        let what = format!("serde_cbor::from_slice::<{}> on {}", name, hex(&c[..c.len().min(160)]));
        any |= serde_guard(&what, c.len(), || {
            let a = serde_cbor::from_slice::<T>(c).map(|v| {
                let _ = serde_cbor::to_vec(&v).map(|x| x.len());
                post(&v);
            });
            let b = serde_cbor::from_reader::<T, _>(c).map(|v| {
                let _ = serde_json::to_string(&v).map(|x| x.len());
            });
            a.is_ok() || b.is_ok()
        })?;
    }
    Ok(any)
}

fn prefix_of(s: &str) -> String {
    let mut k = s.len().min(200);
    while !s.is_char_boundary(k) {
        k -= 1;
    }
    s[..k].to_string()
}

const N_SERDE: usize = 30;
const SERDE_NAMES: [&str; N_SERDE] = [
    "Transaction", "TxIn", "TxOut", "Block", "BlockHeader", "BlockExtData", "dynafed::Params", "confidential::Asset", "confidential::Value",
    "confidential::Nonce", "AssetBlindingFactor", "ValueBlindingFactor", "TxOutSecrets", "Txid", "AssetId", "Address", "Script", "pset::Input",
    "pset::Output", "PartiallySignedTransaction", "pset::Global", "OutPoint", "AssetIssuance", "TxInWitness", "TxOutWitness", "LockTime",
    "PsbtSighashType", "SchnorrSig", "ControlBlock", "TaprootBuilder",
];
/// types that contain a `dynafed::Params`
const SERDE_HAS_PARAMS: [usize; 4] = [3, 4, 5, 6];

/// JSON value tree and CBOR bytes of a generated value of type number `ty`
fn serde_source(t: &mut Tape, ty: usize) -> Result<(serde_json::Value, Vec<u8>), Failure> {
    fn both<T: serde::Serialize>(v: &T) -> Result<(serde_json::Value, Vec<u8>), Failure> {
        g("serde serialize", 0, || (serde_json::to_value(v).unwrap_or(serde_json::Value::Null), serde_cbor::to_vec(v).unwrap_or_default()))
    }
    let o = TxOpts { big: false, max_in: 2, max_out: 2, ..TxOpts::default() };
    match ty {
        0 => both(&gen::gen_tx(t, &o)),
        1 => both(&gen::gen_txin(t, &o)),
        2 => both(&gen::gen_txout(t, &o)),
        3 => both(&gen::gen_block(t)),
        4 => both(&gen::gen_header(t)),
        5 => both(&gen::gen_header(t).ext),
        6 => {
            let p = if t.chance(60) { gen::gen_params(t) } else { dynafed::Params::Full(gen::gen_full_params(t)) };
            both(&p)
        }
        7 => both(&gen::gen_asset(t)),
        8 => both(&gen::gen_value(t)),
        9 => both(&gen::gen_nonce(t)),
        10 => both(&ct::abf_from(t, 1)),
        11 => both(&ct::vbf_from(t, 2)),
        12 => both(&TxOutSecrets::new(gen::gen_asset_id(t), ct::abf_from(t, 3), t.edgy_u64(), ct::vbf_from(t, 4))),
        13 => both(&gen::gen_txid(t)),
        14 => both(&gen::gen_asset_id(t)),
        15 => {
            let r = super::c06::gen_ref_addr(t);
            both(&super::c06::to_lib(&r)?)
        }
        16 => both(&gen::gen_script(t, false)),
        17 => {
            let d = t.choose(&[160u32, 230, 40, 100]);
            both(&gp::gen_input(t, d))
        }
        18 => {
            let d = t.choose(&[160u32, 230, 40, 100]);
            both(&gp::gen_output(t, d, 2))
        }
        19 => both(&gp::gen_pset(t, &PsetOpts { max_in: 2, max_out: 2, extractable: false })),
        20 => both(&gp::gen_pset(t, &PsetOpts { max_in: 0, max_out: 0, extractable: false }).global),
        21 => both(&OutPoint { txid: gen::gen_txid(t), vout: t.edgy_u32() }),
        22 => both(&gen::gen_issuance_nonnull(t)),
        23 => both(&gen::gen_in_witness(t, false)),
        24 => both(&gen::gen_out_witness(t)),
        25 => both(&gen::gen_locktime(t)),
        26 => both(&pset::PsbtSighashType::from_u32(t.edgy_u32())),
        27 => both(&gp::gen_schnorr_sig(t)),
        28 => match gp::gen_control_block(t) {
            Some(cb) => both(&cb),
            None => both(&0u8),
        },
        _ => match gp::gen_tap_tree(t, 6) {
            Some((tt, _)) => both(&tt.into_inner()),
            None => both(&TaprootBuilder::new()),
        },
    }
}

fn serde_feed_ty(ty: usize, json: Option<&str>, cbor: Option<&[u8]>, home: bool, ctx: &mut Ctx) -> Result<bool, Failure> {
    let name = SERDE_NAMES[ty % N_SERDE];
    macro_rules! plain {
        ($t:ty) => {
            serde_feed::<$t>(name, json, cbor, &|_| {})
        };
    }
    match ty % N_SERDE {
        0 => serde_feed::<Transaction>(name, json, cbor, &|tx| {
            if home {
                let _ = (tx.txid(), tx.wtxid(), tx.size(), tx.weight(), serialize(tx).len());
                for i in &tx.input {
                    let _ = i.pegin_data().is_some();
                }
                for o in &tx.output {
                    let _ = (o.pegout_data().is_some(), o.minimum_value());
                }
            }
        }),
        1 => plain!(TxIn),
        2 => plain!(TxOut),
        3 => serde_feed::<Block>(name, json, cbor, &|b| {
            if home {
                let _ = (b.block_hash(), b.size(), b.weight(), b.header.calculate_dynafed_params_root());
            }
        }),
        4 => serde_feed::<BlockHeader>(name, json, cbor, &|h| {
            let _ = (h.block_hash(), h.calculate_dynafed_params_root(), serialize(h).len());
        }),
        5 => plain!(elements::BlockExtData),
        6 => serde_feed::<dynafed::Params>(name, json, cbor, &|p| {
            let _ = (p.calculate_root(), p.is_full(), serialize(p).len());
        }),
        7 => plain!(Asset),
        8 => plain!(Value),
        9 => plain!(Nonce),
        10 => plain!(AssetBlindingFactor),
        11 => plain!(ValueBlindingFactor),
        12 => plain!(TxOutSecrets),
        13 => plain!(Txid),
        14 => plain!(AssetId),
        15 => serde_feed::<Address>(name, json, cbor, &|a| {
            let _ = (a.to_string().len(), a.script_pubkey().len());
        }),
        16 => serde_feed::<Script>(name, json, cbor, &|s| {
            let _ = (s.asm().len(), s.instructions().count());
        }),
        17 => plain!(pset::Input),
        18 => plain!(pset::Output),
        19 => {
            // (what to do with the value is decided by the caller's class; a PSET that comes out goes through the
            // fallible entry points only: serde can produce states the PSET decoder refuses)
            let r = serde_feed::<Pset>(name, json, cbor, &|p| {
                let _ = (p.extract_tx().is_ok(), p.unique_id().is_ok(), p.locktime().is_ok(), p.sanity_check().is_ok());
            });
            let _ = &ctx;
            r
        }
        20 => plain!(pset::Global),
        21 => plain!(OutPoint),
        22 => plain!(AssetIssuance),
        23 => plain!(TxInWitness),
        24 => plain!(TxOutWitness),
        25 => plain!(LockTime),
        26 => plain!(pset::PsbtSighashType),
        27 => plain!(SchnorrSig),
        28 => serde_feed::<ControlBlock>(name, json, cbor, &|c| {
            let _ = (c.size(), c.serialize().len());
        }),
        _ => plain!(TaprootBuilder),
    }
}

/// the exact signature of the candidate finding: the branch vector is `[null]` (one level, no node). Such a value
/// cannot be made through the builder's API; `finalize` relies on "the last element is Some".
fn builder_json_breaks_invariant(v: &serde_json::Value) -> bool {
    match v.get("branch").and_then(|b| b.as_array()) {
        Some(a) => a.len() == 1 && a[0].is_null(),
        None => false,
    }
}

fn serde_builder_states(t: &mut Tape, ctx: &mut Ctx) -> R {
    // branch vectors only serde can make
    let choices = t.bytes(80);
    let (tree, _) = serde_source(t, 29)?;
    let t = &mut Tape::new(&choices);
    let node = tree.get("branch").and_then(|b| b.as_array()).and_then(|a| a.iter().find(|x| !x.is_null()).cloned()).unwrap_or(serde_json::Value::Null);
    let null = serde_json::Value::Null;
    let branch: Vec<serde_json::Value> = match t.below(8) {
        0 => vec![null.clone()],
        1 => vec![null.clone(), null.clone()],
        2 => vec![node.clone(), null.clone()],
        3 => vec![null.clone(), node.clone()],
        4 => std::iter::repeat(node.clone()).take(130).collect(),
        5 => vec![node.clone(), node.clone()],
        6 => std::iter::repeat(null.clone()).take(129).chain(std::iter::once(node.clone())).collect(),
        _ => vec![],
    };
    let doc = json!({ "branch": branch });
    let text = doc.to_string();
    let breaks = builder_json_breaks_invariant(&doc);
    let leaf_script = gen::gen_script(t, false);
    let depth = t.choose(&[0usize, 1, 2, 127, 128, 129]);
    let h = elements::taproot::TapNodeHash::from_byte_array(t.arr32());
    let key = pool().pubkeys[0].x_only_public_key().0;
    let parsed = serde_guard("serde_json::from_str::<TaprootBuilder>", text.len(), || serde_json::from_str::<TaprootBuilder>(&text).ok())?;
    let Some(b) = parsed else {
        ctx.class("serde-builder:refused-by-deserializer");
        return Ok(());
    };
    ctx.class(if breaks { "serde-builder:accepted:branch==[null]" } else { "serde-builder:accepted" });
    let r = guard::guard("TaprootBuilder (from serde) ::{is_complete, add_leaf, add_hidden, finalize}", text.len(), || {
        let _ = b.is_complete();
        let _ = b.clone().add_leaf(depth, leaf_script.clone()).map(|x| x.is_complete());
        let _ = b.clone().add_hidden(depth, h).map(|x| x.is_complete());
        let _ = pset::TapTree::from_inner(b.clone()).is_ok();
        b.clone().finalize(secp(), key).is_ok()
    });
    match r {
        Ok(_) => Ok(()),
        Err(f) => {
            {
                Err(Failure { msg: format!("{} (builder deserialized from {})", f.msg, prefix_of(&text)), panic_loc: f.panic_loc })
            }
        }
    }
}

fn serde_inputs(t: &mut Tape, ctx: &mut Ctx) -> R {
    ctx.eval();
    if t.chance(12) {
        return serde_builder_states(t, ctx);
    }
    let ty = match t.below(10) {
        0 | 1 => 6,
        2 => 4,
        3 => 0,
        4 => 19,
        _ => t.below(N_SERDE),
    };
    let choices = t.bytes(64);
    let (tree, cbor) = serde_source(t, ty)?;
    let t = &mut Tape::new(&choices);
    let other = t.below(N_SERDE);
    if t.bool() {
        let (text, op) = xg::mutate_json(t, &tree);
        let ok = serde_feed_ty(ty, Some(&text), None, true, ctx)?;
        let _ = serde_feed_ty(other, Some(&text), None, false, ctx)?;
        let _ = g("ContractHash::from_json_contract", text.len(), || ContractHash::from_json_contract(&text).is_ok())?;
        ctx.class(&format!("serde-json:{}:{}", op, if ok { "ok" } else { "err" }));
        ctx.class(&format!("serde-type:{}", SERDE_NAMES[ty]));
        ctx.nontrivial(&(ty, &text));
        if ctx.wants_sample("serde-json") && text.len() < 200 && op != "unchanged" {
            ctx.sample("serde-json", || json!({"type": SERDE_NAMES[ty], "op": op, "text": text, "deserialized": ok}));
        }
    } else {
        let mut b = cbor;
        let mut op = xg::mutate_cbor(t, &mut b);
        if t.chance(60) {
            op = xg::mutate_cbor(t, &mut b);
        }
        // Two defects were found here on the pinned tree and repaired (known_findings.json: C10 params-cbor-prealloc,
        // commitment-serde-short); the shapes are generated and judged like every other, only labelled.
        if xg::cbor_has_params_hexbytes_array_bomb(&b) && (SERDE_HAS_PARAMS.contains(&ty) || SERDE_HAS_PARAMS.contains(&other)) {
            ctx.class("serde-cbor:shape:params-hexbytes-array-head-larger-than-input");
        }
        if xg::cbor_has_short_commitment_bytes(&b) {
            ctx.class("serde-cbor:shape:commitment-position-holds-short-byte-string");
        }
        let ok = serde_feed_ty(ty, None, Some(&b), true, ctx)?;
        let _ = serde_feed_ty(other, None, Some(&b), false, ctx)?;
        ctx.class(&format!("serde-cbor:{}:{}", op, if ok { "ok" } else { "err" }));
        ctx.class(&format!("serde-type:{}", SERDE_NAMES[ty]));
        ctx.nontrivial(&(ty, &b));
        if ctx.wants_sample("serde-cbor") && b.len() < 120 {
            ctx.sample("serde-cbor", || json!({"type": SERDE_NAMES[ty], "op": op, "cbor_hex": hex(&b), "deserialized": ok}));
        }
    }
    Ok(())
}

// ---- fixed inputs of repaired serde defects (plain regression cases, no generator involved) -------------

/// index -> one fixed document that made a deserializer of the library over-allocate, read out of bounds or leave a
/// value that panics later, on the pinned tree (known_findings.json: fixed). Evaluated under the same guards.
fn serde_regress(idx: u64, _seed: u64, ctx: &mut Ctx) -> R {
    use elements::confidential::{Asset as CAsset, Value as CValue};
    ctx.eval();
    let unhex = |h: &str| crate::engine::unhex(h).unwrap_or_default();
    match idx {
        // CBOR: {"fedpegscript": array head declaring 2^40 / 2^26+1 / 1 000 000 elements}, nothing behind it
        0 | 1 | 2 => {
            let doc = unhex(["a16c6665647065677363726970749b0000010000000000", "a16c6665647065677363726970749a04000001", "a16c6665647065677363726970749a000f4240"][idx as usize]);
            serde_guard("serde_cbor::from_slice::<dynafed::Params> (array head larger than the input)", doc.len(), || serde_cbor::from_slice::<dynafed::Params>(&doc).is_ok())?;
            serde_guard("serde_cbor::from_reader::<BlockHeader> (array head larger than the input)", doc.len(), || serde_cbor::from_reader::<BlockHeader, _>(&doc[..]).is_ok())?;
        }
        // CBOR: [2, byte string of 0 / 1 / 32 bytes] where a 33-byte commitment is expected
        3 | 4 | 5 => {
            let doc = unhex(["820240", "82024108", "8202582009090909090909090909090909090909090909090909090909090909090909"][(idx - 3) as usize]);
            serde_guard("serde_cbor::from_slice::<confidential::Value> (short commitment)", doc.len(), || serde_cbor::from_slice::<CValue>(&doc).is_ok())?;
            serde_guard("serde_cbor::from_reader::<confidential::Value> (short commitment)", doc.len(), || serde_cbor::from_reader::<CValue, _>(&doc[..]).is_ok())?;
            serde_guard("serde_cbor::from_slice::<confidential::Asset> (short generator)", doc.len(), || serde_cbor::from_slice::<CAsset>(&doc).is_ok())?;
            serde_guard("serde_cbor::from_reader::<confidential::Asset> (short generator)", doc.len(), || serde_cbor::from_reader::<CAsset, _>(&doc[..]).is_ok())?;
        }
        // JSON: a builder whose only branch slot is empty
        _ => {
            let text = r#"{"branch":[null]}"#;
            let key = pool().pubkeys[0].x_only_public_key().0;
            guard::guard("TaprootBuilder from {\"branch\":[null]} ::finalize", text.len(), || {
                serde_json::from_str::<TaprootBuilder>(text).ok().map(|b| b.finalize(secp(), key).is_ok())
            })?;
        }
    }
    ctx.class("serde-regress");
    ctx.nontrivial(&idx);
    Ok(())
}

// ---- (9) blinding bodies from consistent cases, merges of real siblings -----------------------------

fn err_variant<E: std::fmt::Debug>(e: &E) -> String {
    let s = format!("{:?}", e);
    s.split(|c: char| c == '(' || c == '{' || c == ' ').next().unwrap_or("").to_string()
}

fn blind_perturbed(t: &mut Tape, ctx: &mut Ctx) -> R {
    let choices = t.bytes(96);
    let mut c = xg::gen_blind_case(t);
    let t = &mut Tape::new(&choices);
    // a quarter of the cases stay consistent: they run both bodies to their end
    let k = if t.below(4) == 0 { 0 } else { t.below(xg::BLIND_PERTURBATIONS.len()) };
    let name = xg::BLIND_PERTURBATIONS[k];
    xg::perturb_blind_case(t, &mut c, k);
    let seq = t.below(4);
    ctx.eval();
    let mut q = c.pset.clone();
    let mut rng = ChaCha20Rng::from_seed(c.seed);
    // two roles: with the sequences that start with blind_non_last the first blinder holds the secrets of its own
    // inputs only and the last blinder those of the others; blind_last alone is given everything
    let two_party = matches!(seq, 0 | 3);
    let (sec_first, sec_last) = if two_party { (c.secrets_of(false), c.secrets_of(true)) } else { (c.secrets.clone(), c.secrets.clone()) };
    let mut outcomes: Vec<String> = Vec::new();
    let mut all_ok = true;
    let steps: &[bool] = match seq {
        0 => &[false, true],       // non-last, then last
        1 => &[true],              // last alone
        2 => &[true, true],        // last twice in a row
        _ => &[false, false, true], // non-last twice, then last
    };
    for (n, last) in steps.iter().enumerate() {
        let what = format!("{} (step {} of {:?}, perturbation {}, {} marked outputs)", if *last { "blind_last" } else { "blind_non_last" }, n, steps, name, c.marked.len());
        let secrets = if *last { &sec_last } else { &sec_first };
        let r = g(&what, 0, || if *last { q.blind_last(&mut rng, secp(), secrets).map(|m| m.len()) } else { q.blind_non_last(&mut rng, secp(), secrets).map(|m| m.len()) })?;
        match r {
            Ok(_) => outcomes.push("ok".into()),
            Err(e) => {
                all_ok = false;
                outcomes.push(err_variant(&e));
            }
        }
        g("surjection_inputs", 0, || q.surjection_inputs(secrets).is_ok())?;
    }
    pset_sweep(&q, all_ok, ctx)?;
    ctx.class(&format!("blind-case:{}:{}", name, if all_ok { "all-steps-ok" } else { "some-step-err" }));
    ctx.class(&format!("blind-case:marked-outputs:{}", c.marked.len()));
    ctx.class(&format!("blind-case:steps:{}", match seq { 0 => "non_last,last", 1 => "last", 2 => "last,last", _ => "non_last,non_last,last" }));
    if k == 0 && seq <= 1 && !c.marked.is_empty() {
        // the unperturbed case is consistent: reaching the end of both bodies is what this sub-check is for
        ctx.class(if all_ok { "blind-case:consistent:completed" } else { "blind-case:consistent:refused" });
    }
    if k == 0 && seq <= 1 && !c.marked.is_empty() && !all_ok && ctx.wants_sample("blind-case:consistent:refused") {
        let outs: Vec<String> = c.pset.outputs().iter().map(|o| format!("{:?}/{:?}/key={}/idx={:?}", o.amount, o.asset, o.blinding_key.is_some(), o.blinder_index)).collect();
        let ins: Vec<String> = c.pset.inputs().iter().map(|i| format!("conf={} iss={:?}", i.witness_utxo.as_ref().map_or(false, |u| u.value.v_conf()), i.issuance_value_amount)).collect();
        ctx.sample("blind-case:consistent:refused", || json!({"steps": format!("{:?}", steps), "outcomes": outcomes, "marked": c.marked, "ins": ins, "outs": outs}));
    }
    if ctx.wants_sample("blind-case") && !all_ok {
        ctx.sample("blind-case", || json!({"perturbation": name, "steps": format!("{:?}", steps), "outcomes": outcomes, "marked": c.marked, "inputs": c.pset.inputs().len(), "outputs": c.pset.outputs().len()}));
    }
    Ok(())
}

fn merge_siblings(t: &mut Tape, ctx: &mut Ctx) -> R {
    let p = gp::gen_pset(t, &PsetOpts::default());
    let sib = xg::gen_merge_sibling(t, &p);
    ctx.eval();
    let (id_a, id_b) = g("unique_id", 0, || (p.unique_id().ok(), sib.unique_id().ok()))?;
    ctx.class(match (&id_a, &id_b) {
        (Some(a), Some(b)) if a == b => "merge-sibling:same-id",
        (None, None) => "merge-sibling:both-ids-err",
        _ => "merge-sibling:ids-differ",
    });
    let mut a = p.clone();
    let r1 = g("merge(sibling)", 0, || a.merge(sib.clone()))?;
    let mut b = sib.clone();
    let r2 = g("merge(sibling, other order)", 0, || b.merge(p.clone()))?;
    // merging the result again, and the two results with each other
    let r3 = g("merge(result, sibling again)", 0, || a.merge(sib.clone()))?;
    let r4 = g("merge(result, other result)", 0, || a.merge(b.clone()))?;
    for r in [&r1, &r2, &r3, &r4] {
        if let Err(e) = r {
            ctx.class(&format!("merge-sibling:err:{}", err_variant(e)));
        }
    }
    if r1.is_ok() {
        ctx.class("merge-sibling:merged");
    }
    pset_sweep(&a, r1.is_ok() && r3.is_ok() && r4.is_ok(), ctx)?;
    pset_sweep(&b, r2.is_ok(), ctx)?;
    // operands of different length (zip) under one id cannot exist; different ids with different lengths:
    let mut c = p.clone();
    if t.bool() {
        let _ = g("remove_input", 0, || c.remove_input(0).is_some())?;
    } else {
        let o = gp::gen_output(t, 100, c.inputs().len());
        g("add_output", 0, || c.add_output(o))?;
    }
    let mut a2 = p.clone();
    g("merge(other length)", 0, || a2.merge(c).is_ok())?;
    Ok(())
}

fn pset_ops(t: &mut Tape, ctx: &mut Ctx) -> R {
    if t.below(4) < 3 {
        blind_perturbed(t, ctx)?;
    } else {
        merge_siblings(t, ctx)?;
    }
    ctx.nontrivial(&t.consumed());
    Ok(())
}

fn repro_params_cbor_prealloc() -> bool {
    // {"fedpegscript": <array head declaring 2^63 elements>}: Vec::with_capacity(2^63) panics with "capacity
    // overflow" before anything is allocated; a deserializer that does not trust the declared length answers Err
    let doc = unhex("a16c6665647065677363726970749b8000000000000000").unwrap_or_default();
    std::panic::catch_unwind(|| {
        let _ = serde_cbor::from_slice::<dynafed::Params>(&doc);
    })
    .is_err()
}
fn repro_commitment_serde_short() -> bool {
    // [2, h'09'] from a slice: the parser reads 32 bytes behind the one-byte string (no fault, the bytes belong to
    // the buffer below) and answers from what it finds there; a deserializer that checks the length answers Err
    // whatever follows. Two buffers that differ only behind the document tell the two apart.
    let mut a = vec![0x82u8, 0x02, 0x41, 0x09];
    let mut b = a.clone();
    let p = pool().commitments[0].serialize();
    a.extend_from_slice(&p[1..]);
    b.extend_from_slice(&[0u8; 32]);
    let ra = serde_cbor::from_slice::<Value>(&a[..4]).is_ok();
    let rb = serde_cbor::from_slice::<Value>(&b[..4]).is_ok();
    let _ = p;
    ra || rb
}
fn repro_builder_serde() -> bool {
    std::panic::catch_unwind(|| {
        if let Ok(b) = serde_json::from_str::<TaprootBuilder>("{\"branch\":[null]}") {
            let _ = b.finalize(secp(), pool().pubkeys[0].x_only_public_key().0);
        }
    })
    .is_err()
}

fn repro_blind_no_marked() -> bool {
    std::panic::catch_unwind(|| {
        let a = pool().assets[0];
        let mut tx = Transaction {
            version: 2,
            lock_time: LockTime::ZERO,
            input: vec![TxIn::default()],
            output: vec![TxOut { asset: Asset::Explicit(a), value: Value::Explicit(1), nonce: Nonce::Null, script_pubkey: Script::new(), witness: TxOutWitness::empty() }],
        };
        let s = TxOutSecrets::new(a, AssetBlindingFactor::zero(), 1, ValueBlindingFactor::zero());
        let _ = tx.blind(&mut ChaCha20Rng::from_seed([0; 32]), secp(), &[s], false);
    })
    .is_err()
}
fn repro_new_bech32() -> bool {
    std::panic::catch_unwind(|| {
        let _ = SegwitHrpstring::new_bech32("a1");
    })
    .is_err()
}

pub fn property() -> Property {
    let _ = TxInWitness::empty();
    Property {
        id: "C10",
        rule: "decoders: 30 Decodable types x inputs (random bytes, valid encodings with 0..3 layout-aware mutations, length \
               bombs spliced at a tape offset, repository vectors and their mutants); every successfully decoded value goes \
               through the accessors (ids, sizes, weights, discount, fees, pegin / pegout data, minimum value, is_*, asm, \
               Display / Debug, dynafed roots, PSET extract_tx / unique_id / locktime / sanity_check, serde_json) and decoded \
               transactions through from_tx. text_parsers: random, bech32-shaped and mutated valid texts into Address, \
               blech32 (Unchecked / Checked / SegwitHrpstring incl. new_bech32), 16 FromStr impls, PSET base64, serde_json. \
               slice_parsers: ControlBlock / TaprootMerkleBranch / SchnorrSig / 19 pset Deserialize impls / ELIP-100 / script \
               readers (read_uint sizes 0..8) / from_slice constructors / PeginData / script iteration on mutated valid and \
               random slices. operations: Transaction::blind (8 degenerate variants), verify with arbitrary spent outputs, \
               unblind with wrong keys, blind_issuances, PSET structural edits + blind_last / blind_non_last / \
               surjection_inputs with arbitrary secret maps and blinder indices, merge with arbitrary PSETs and key \
               sources, TaprootBuilder histories with arbitrary depths / hidden nodes, Huffman with 0..300 weights, taproot \
               sighash with out-of-range indices / mismatched prevouts / arbitrary annex (after an edit that leaves a PSET in a \
               state the decoder refuses, or a blinding call that stopped half way, only the fallible entry points are swept, \
               not the infallible accessors). pset_framed: library encodings of generated PSETs split into raw key-value pairs \
               by the harness and re-framed after (a) rewriting the declared input / output count to actual+1, actual+2, 0, 9999, \
               10000, 10001, 65536, 2^31-1, 2^32-1, 2^32, 2^63, u64::MAX with all, some or none of the maps following, (b) one or \
               two pair-level edits (value resized, pair duplicated / deleted / moved to another map, type byte changed, key \
               data appended / truncated, separator deleted, empty map inserted, xpub record with a value of 0..8 bytes, pset \
               proprietary record of an assigned subtype with a key / value of the wrong shape), through deserialize::<Pset> \
               and the single-map decoders. structured_scripts: OP_RETURN scripts with two and more pushes in all four push \
               encodings around the pegout rules (first push 32 / 31 / 33 / 0 bytes, second 0..256 bytes, numeric / reserved / \
               non-push opcodes and a truncated push in the remainder) through is_null_data / pegout_data / is_pegout and the \
               transaction decoder; pegin witnesses of 6 (5, 7) items with every field at its length and one off, a real or \
               truncated bitcoin transaction, a merkle-block shaped or 79 / 80 / 81 / 160-byte proof through \
               PeginData::from_pegin_witness, parse_tx, parse_merkle_proof, TxIn::pegin_data; scripts of whole instructions whose \
               last direct push / PUSHDATA1/2/4 payload is 0, 1 or 2 bytes short or whose header is cut, declared lengths up \
               to 2^32-1, through instructions / instructions_minimal / asm. alloc_caps: a compact size recorded by the \
               reference encoder (element counts and byte lengths of 22 decodable types) replaced by 65535, 100000, 10^6, \
               4000000, 4000001, 5*10^6, 8*10^6, 16Mi, 32Mi, 64Mi-1; oracle: the largest single allocation request stays \
               below what the documented caps allow (4,000,000 bytes per vector, 10,000 PSET maps) + 1 MiB + 64 x input, \
               instead of the generic 64 MiB. serde_inputs: JSON and CBOR of generated values of 30 serde types, mutated at the \
               token level (field dropped / duplicated / renamed, node replaced, sequence tag changed, string / number edited, \
               hex string or byte string written in array notation, definite lengths rewritten to 2^24..2^64-1 or indefinite, \
               major type changed, item replaced / deleted, map entry duplicated, truncation, 100..10000 levels of nesting) \
               into serde_json::from_str / from_reader and serde_cbor::from_slice / from_reader of the value's own type and of a \
               second type, ContractHash::from_json_contract; single allocation <= 4 MiB + 64 x input; TaprootBuilder values \
               only serde can make ([null], [null,null], [node,null], 130 entries ...) through is_complete / add_leaf / \
               add_hidden / finalize. Three candidate findings are excluded by their exact signature and counted \
               (excluded_by_construction): a CBOR array head declaring more elements than bytes follow in the position of \
               Params.fedpegscript / an extension_space entry; a CBOR byte string shorter than 33 bytes where a commitment is \
               read; finalize on a builder deserialized from {branch:[null]}. pset_ops: consistent two-role blinding cases \
               (1..3 inputs with true secrets split between a first and a last blinder, 0..3 marked outputs, optional \
               issuance) with one of 18 perturbations, through blind_non_last / blind_last in four call sequences (a quarter \
               unperturbed: both bodies run to their end); merge of a PSET with a sibling of the same unique id in which \
               every other field is drawn anew (both orders, result merged again, results merged with each other, operands of \
               different length). Oracle: no panic outside the \
               documented conditions, no abort, no single allocation > 64 MiB nor live growth > 128 MiB + 64 x input. \
               Non-trivial: input of >= 8 bytes (decoders), text with a separator or > 8 chars, slice >= 4 bytes, every \
               operation case, every case of the structured sub-checks; distinct by input.",
        assumptions: &[
            "documented panics are not generated: legacy/segwit sighash and signing-data with index >= inputs, insert_input / insert_output beyond the length, p2wpkh with uncompressed keys, new_witness_program with version > 16, push_slice >= 4 GiB, remove_checksum on unvalidated data, read_uint with size > 8",
            "overflow-checks and debug-assertions are enabled in the harness build, so arithmetic overflow in the library is a panic",
            "serde Deserialize impls (serde_json, serde_cbor 0.8) count as public functions that report failure through Result; values only serde can construct count as in-memory values for the fallible builder operations",
            "the infallible accessor sweep (to_txout, encoder, Display, Debug) is applied only to PSETs a decoder can produce; other in-memory states get the fallible entry points only",
        ],
        subs: vec![
            Sub { name: "corpus", kind: Kind::Index { count: |_| 45, exhaustive: false, f: corpus } },
            Sub { name: "serde_regress", kind: Kind::Index { count: |_| 7, exhaustive: true, f: serde_regress } },
            Sub { name: "decoders", kind: Kind::Tape { max_len: 4000, quick: 150_000, thorough: 5_000_000, f: decoders } },
            Sub { name: "text_parsers", kind: Kind::Tape { max_len: 3000, quick: 240_000, thorough: 3_000_000, f: text_parsers } },
            Sub { name: "slice_parsers", kind: Kind::Tape { max_len: 1500, quick: 240_000, thorough: 3_000_000, f: slice_parsers } },
            Sub { name: "operations", kind: Kind::Tape { max_len: 5000, quick: 6_000, thorough: 200_000, f: operations } },
            Sub { name: "unblind_crafted", kind: Kind::Tape { max_len: 400, quick: 4_000, thorough: 120_000, f: unblind_crafted } },
            Sub { name: "raw_bytes", kind: Kind::Tape { max_len: 300, quick: 120_000, thorough: 1_500_000, f: raw_bytes } },
            Sub { name: "raw_text", kind: Kind::Tape { max_len: 120, quick: 120_000, thorough: 1_500_000, f: raw_text } },
            Sub { name: "pset_framed", kind: Kind::Tape { max_len: 3000, quick: 50_000, thorough: 1_500_000, f: pset_framed } },
            Sub { name: "structured_scripts", kind: Kind::Tape { max_len: 1200, quick: 120_000, thorough: 3_000_000, f: structured_scripts } },
            Sub { name: "alloc_caps", kind: Kind::Tape { max_len: 3000, quick: 60_000, thorough: 1_800_000, f: alloc_caps } },
            Sub { name: "serde_inputs", kind: Kind::Tape { max_len: 4000, quick: 80_000, thorough: 2_400_000, f: serde_inputs } },
            Sub { name: "pset_ops", kind: Kind::Tape { max_len: 8000, quick: 4_000, thorough: 120_000, f: pset_ops } },
        ],
        known: vec![
            Known { key: KF_BLIND_NO_MARKED, what: "Transaction::blind panics (expect) when no output is marked for blinding", repro: repro_blind_no_marked },
            Known { key: KF_NEW_BECH32_EMPTY, what: "SegwitHrpstring::new_bech32 panics on a string with an empty data part", repro: repro_new_bech32 },
            Known {
                key: KF_PARAMS_CBOR_PREALLOC,
                what: "dynafed::Params deserialized from CBOR pre-allocates the declared length of an array given for fedpegscript / an extension_space entry (HexBytes::visit_seq: Vec::with_capacity(size_hint)): a 23-byte document requests 2^40 bytes or panics with capacity overflow",
                repro: repro_params_cbor_prealloc,
            },
            Known {
                key: KF_COMMITMENT_SERDE_SHORT,
                what: "confidential::Value / Asset (and every type holding a commitment) deserialized from CBOR hand a byte string of any length to secp256k1_zkp::{PedersenCommitment, Generator}::from_slice, which reads 33 bytes: out-of-bounds read, SIGSEGV for serde_cbor::from_reader of 82 02 40",
                repro: repro_commitment_serde_short,
            },
            Known {
                key: KF_BUILDER_SERDE_INVARIANT,
                what: "a TaprootBuilder deserialized from {\"branch\":[null]} makes finalize panic (expect on the builder invariant)",
                repro: repro_builder_serde,
            },
        ],
    }
}
