//! C10 — not built yet (stub; replaced by the real check).
use crate::engine::*;

pub fn property() -> Property {
    Property { id: "C10", rule: "", assumptions: &[], subs: vec![], known: vec![] }
}
