//! C02 — txid / wtxid / block hash are the consensus hashes and ignore witness data.
use elements::confidential::{Asset, Nonce, Value};
use elements::hashes::Hash as _;
use elements::secp256k1_zkp::ZERO_TWEAK;
use elements::{dynafed, AssetIssuance, Block, BlockExtData, BlockHash, BlockHeader, LockTime, Script, Sequence, Transaction, TxMerkleNode, Txid};
use serde_json::json;

use crate::engine::*;
use crate::gen::ext_g1 as xg;
use crate::gen::{self, pool, TxOpts};
use crate::refimpl::{enc, sha256::sha256d};
use crate::{ensure, ensure_eq};

fn lib_txid(tx: &Transaction) -> Result<[u8; 32], Failure> {
    guard::guard("txid", 0, || tx.txid().to_byte_array())
}
fn lib_wtxid(tx: &Transaction) -> Result<[u8; 32], Failure> {
    guard::guard("wtxid", 0, || tx.wtxid().to_byte_array())
}

/// failure-path diagnostic (attribution only, no verdict depends on it): does the id equal the hash
/// of the library's *own* serialization? Then the hash function is consistent and the root cause is
/// the encoder (C01), which the reference comparison shows as well.
fn attribution(tx: &Transaction, got: &[u8; 32], stripped: bool) -> &'static str {
    let own = guard::guard("serialize", 0, || {
        if stripped {
            let mut c = tx.clone();
            for i in &mut c.input {
                i.witness = Default::default();
            }
            for o in &mut c.output {
                o.witness = Default::default();
            }
            elements::encode::serialize(&c)
        } else {
            elements::encode::serialize(tx)
        }
    });
    match own {
        Ok(b) if &sha256d(&b) == got => {
            " [attribution: the id equals sha256d of the library's own serialization, which differs from the reference encoding: the encoder is at fault (C01), the hash is consistent with it]"
        }
        _ => "",
    }
}

fn check_ids(tx: &Transaction, ctx: &mut Ctx) -> Result<([u8; 32], [u8; 32]), Failure> {
    let txid = lib_txid(tx)?;
    let wtxid = lib_wtxid(tx)?;
    ctx.evals_n(2);
    let want_txid = sha256d(&enc::tx_stripped(tx));
    let want_wtxid = sha256d(&enc::tx_full(tx));
    if txid != want_txid {
        let a = attribution(tx, &txid, true);
        ensure_eq!(hex(&txid), hex(&want_txid), "txid is not sha256d of the witness-stripped serialization ({} inputs, {} outputs, {:?}){}", tx.input.len(), tx.output.len(), xg::tx_features_x(tx), a);
    }
    if wtxid != want_wtxid {
        let a = attribution(tx, &wtxid, false);
        ensure_eq!(hex(&wtxid), hex(&want_wtxid), "wtxid is not sha256d of the full serialization ({} inputs, {} outputs, {:?}){}", tx.input.len(), tx.output.len(), xg::tx_features_x(tx), a);
    }
    ensure!(
        (txid == wtxid) == !enc::tx_has_witness(tx),
        "wtxid == txid must hold exactly when there is no witness (has_witness={})",
        enc::tx_has_witness(tx)
    );
    Ok((txid, wtxid))
}

fn other_rangeproof(t: &mut Tape, cur: &Option<Box<elements::secp256k1_zkp::RangeProof>>) -> Option<Box<elements::secp256k1_zkp::RangeProof>> {
    let p = pool();
    match cur {
        Some(c) if t.bool() => {
            let _ = c;
            None
        }
        _ => {
            let mut k = t.below(p.rangeproofs.len());
            if let Some(c) = cur {
                if p.rangeproofs[k] == **c {
                    k = (k + 1) % p.rangeproofs.len();
                }
            }
            Some(Box::new(p.rangeproofs[k].clone()))
        }
    }
}
fn other_surjproof(t: &mut Tape, cur: &Option<Box<elements::secp256k1_zkp::SurjectionProof>>) -> Option<Box<elements::secp256k1_zkp::SurjectionProof>> {
    let p = pool();
    match cur {
        Some(_) if t.bool() => None,
        _ => {
            let mut k = t.below(p.surjproofs.len());
            if let Some(c) = cur {
                if p.surjproofs[k] == **c {
                    k = (k + 1) % p.surjproofs.len();
                }
            }
            Some(Box::new(p.surjproofs[k].clone()))
        }
    }
}
fn other_stack(t: &mut Tape, cur: &[Vec<u8>]) -> Vec<Vec<u8>> {
    let mut s = cur.to_vec();
    match t.below(3) {
        0 if !s.is_empty() => {
            s.pop();
        }
        1 if !s.is_empty() => {
            let k = t.below(s.len());
            s[k].push(t.u8());
        }
        _ => s.push(t.bytes(3)),
    }
    s
}
fn other_value(t: &mut Tape, cur: Value) -> Value {
    let v = gen::gen_value_nonnull(t);
    if v != cur {
        return v;
    }
    match cur {
        Value::Explicit(n) => Value::Explicit(n ^ 1),
        _ => Value::Explicit(1),
    }
}
fn flip32(t: &mut Tape, mut a: [u8; 32]) -> [u8; 32] {
    a[t.below(32)] ^= 1 << t.below(8);
    a
}
fn other_script(t: &mut Tape, cur: &Script) -> Script {
    let mut b = cur.to_bytes();
    match t.below(3) {
        0 if !b.is_empty() => {
            b.pop();
        }
        1 if !b.is_empty() => {
            let k = t.below(b.len());
            b[k] ^= 1 << t.below(8);
        }
        _ => b.push(t.u8()),
    }
    Script::from(b)
}

/// number of witness / non-witness modification kinds
const TX_WIT_MODS: usize = 6;
const TX_NONWIT_MODS: usize = 17;

/// apply witness-only modification `k`; returns (label, whether the base field was non-default)
fn tx_witness_mod(t: &mut Tape, tx: &mut Transaction, k: usize) -> Option<(&'static str, bool)> {
    match k {
        0..=3 => {
            if tx.input.is_empty() {
                return None;
            }
            let i = t.below(tx.input.len());
            let w = &mut tx.input[i].witness;
            Some(match k {
                0 => {
                    let nd = w.amount_rangeproof.is_some();
                    w.amount_rangeproof = other_rangeproof(t, &w.amount_rangeproof);
                    ("in.amount_rangeproof", nd)
                }
                1 => {
                    let nd = w.inflation_keys_rangeproof.is_some();
                    w.inflation_keys_rangeproof = other_rangeproof(t, &w.inflation_keys_rangeproof);
                    ("in.inflation_keys_rangeproof", nd)
                }
                2 => {
                    let nd = !w.script_witness.is_empty();
                    w.script_witness = other_stack(t, &w.script_witness);
                    ("in.script_witness", nd)
                }
                _ => {
                    let nd = !w.pegin_witness.is_empty();
                    w.pegin_witness = other_stack(t, &w.pegin_witness);
                    ("in.pegin_witness", nd)
                }
            })
        }
        _ => {
            if tx.output.is_empty() {
                return None;
            }
            let i = t.below(tx.output.len());
            let w = &mut tx.output[i].witness;
            Some(if k == 4 {
                let nd = w.surjection_proof.is_some();
                w.surjection_proof = other_surjproof(t, &w.surjection_proof);
                ("out.surjection_proof", nd)
            } else {
                let nd = w.rangeproof.is_some();
                w.rangeproof = other_rangeproof(t, &w.rangeproof);
                ("out.rangeproof", nd)
            })
        }
    }
}

fn tx_nonwitness_mod(t: &mut Tape, tx: &mut Transaction, k: usize) -> Option<(&'static str, bool)> {
    match k {
        0 => {
            tx.version ^= 1 << t.below(32);
            Some(("version", true))
        }
        1 => {
            let n = tx.lock_time.to_consensus_u32() ^ (1 << t.below(32));
            tx.lock_time = LockTime::from_consensus(n);
            Some(("lock_time", true))
        }
        2..=10 => {
            if tx.input.is_empty() {
                return None;
            }
            let i = t.below(tx.input.len());
            let inp = &mut tx.input[i];
            let flaggable = inp.previous_output.vout != u32::MAX;
            match k {
                2 => {
                    inp.previous_output.txid = Txid::from_byte_array(flip32(t, inp.previous_output.txid.to_byte_array()));
                    Some(("in.txid", true))
                }
                3 => {
                    // another canonical index
                    if !flaggable {
                        return None;
                    }
                    let mut v = gen::gen_vout(t);
                    if v == inp.previous_output.vout {
                        v ^= 1;
                    }
                    if v == 0x3fff_ffff && inp.is_pegin && inp.has_issuance() {
                        v = 7;
                        if v == inp.previous_output.vout {
                            v = 8;
                        }
                    }
                    inp.previous_output.vout = v;
                    Some(("in.vout", true))
                }
                4 => {
                    if !flaggable {
                        return None;
                    }
                    if !inp.is_pegin && inp.has_issuance() && inp.previous_output.vout == 0x3fff_ffff {
                        return None;
                    }
                    inp.is_pegin = !inp.is_pegin;
                    Some(("in.is_pegin", true))
                }
                5 => {
                    let nd = !inp.script_sig.is_empty();
                    inp.script_sig = other_script(t, &inp.script_sig);
                    Some(("in.script_sig", nd))
                }
                6 => {
                    inp.sequence = Sequence(inp.sequence.0 ^ (1 << t.below(32)));
                    Some(("in.sequence", true))
                }
                7 => {
                    if !inp.has_issuance() {
                        return None;
                    }
                    let cur = inp.asset_issuance.asset_blinding_nonce;
                    let mut n = gen::gen_tweak(t);
                    if n == cur {
                        n = ZERO_TWEAK;
                    }
                    if n == cur {
                        n = pool().tweaks[1];
                    }
                    inp.asset_issuance.asset_blinding_nonce = n;
                    Some(("in.issuance.blinding_nonce", true))
                }
                8 => {
                    if !inp.has_issuance() {
                        return None;
                    }
                    inp.asset_issuance.asset_entropy = flip32(t, inp.asset_issuance.asset_entropy);
                    Some(("in.issuance.entropy", true))
                }
                9 => {
                    if !inp.has_issuance() {
                        return None;
                    }
                    // keep the issuance non-null
                    if t.bool() {
                        inp.asset_issuance.amount = other_value(t, inp.asset_issuance.amount);
                        Some(("in.issuance.amount", true))
                    } else {
                        inp.asset_issuance.inflation_keys = other_value(t, inp.asset_issuance.inflation_keys);
                        Some(("in.issuance.inflation_keys", true))
                    }
                }
                _ => {
                    // attach an issuance to an input without one / remove it
                    if !flaggable {
                        return None;
                    }
                    if inp.has_issuance() {
                        inp.asset_issuance = AssetIssuance::null();
                    } else {
                        if inp.is_pegin && inp.previous_output.vout == 0x3fff_ffff {
                            return None;
                        }
                        inp.asset_issuance = gen::gen_issuance_nonnull(t);
                    }
                    Some(("in.issuance.presence", true))
                }
            }
        }
        11..=14 => {
            if tx.output.is_empty() {
                return None;
            }
            let i = t.below(tx.output.len());
            let o = &mut tx.output[i];
            match k {
                11 => {
                    let cur = o.asset;
                    let mut a = gen::gen_asset(t);
                    if a == cur {
                        a = match cur {
                            Asset::Null => Asset::Explicit(pool().assets[0]),
                            _ => Asset::Null,
                        };
                    }
                    o.asset = a;
                    Some(("out.asset", !cur.is_null()))
                }
                12 => {
                    let cur = o.value;
                    let mut v = gen::gen_value(t);
                    if v == cur {
                        v = match cur {
                            Value::Null => Value::Explicit(5),
                            _ => Value::Null,
                        };
                    }
                    o.value = v;
                    Some(("out.value", !cur.is_null()))
                }
                13 => {
                    let cur = o.nonce;
                    let mut n = gen::gen_nonce(t);
                    if n == cur {
                        n = match cur {
                            Nonce::Null => Nonce::Explicit([9; 32]),
                            _ => Nonce::Null,
                        };
                    }
                    o.nonce = n;
                    Some(("out.nonce", !cur.is_null()))
                }
                _ => {
                    let nd = !o.script_pubkey.is_empty();
                    o.script_pubkey = other_script(t, &o.script_pubkey);
                    Some(("out.script_pubkey", nd))
                }
            }
        }
        15 => {
            let o = TxOpts { big: false, witness: false, ..TxOpts::default() };
            if t.bool() || tx.input.is_empty() {
                tx.input.push(gen::gen_txin(t, &o));
                Some(("inputs.add", true))
            } else {
                // removing an input must not be a witness-only change: strip is fine either way
                let i = t.below(tx.input.len());
                tx.input.remove(i);
                Some(("inputs.remove", true))
            }
        }
        _ => {
            let o = TxOpts { big: false, witness: false, ..TxOpts::default() };
            if t.bool() || tx.output.is_empty() {
                tx.output.push(gen::gen_txout(t, &o));
                Some(("outputs.add", true))
            } else {
                let i = t.below(tx.output.len());
                tx.output.remove(i);
                Some(("outputs.remove", true))
            }
        }
    }
}

fn tx_ids(t: &mut Tape, ctx: &mut Ctx) -> R {
    let o = TxOpts { big: t.chance(30), ..TxOpts::default() };
    let tx = gen::gen_tx(t, &o);
    let (txid, wtxid) = check_ids(&tx, ctx)?;
    for f in gen::tx_features(&tx) {
        ctx.class(&format!("feature:{}", f));
    }
    if ctx.wants_sample("tx") && !tx.input.is_empty() && !tx.output.is_empty() {
        ctx.sample("tx", || json!({"inputs": tx.input.len(), "outputs": tx.output.len(), "features": gen::tx_features(&tx),
                                    "txid": hex(&txid), "wtxid": hex(&wtxid)}));
    }
    // every witness-class modification: txid unchanged, wtxid changed
    for k in 0..TX_WIT_MODS {
        let mut m = tx.clone();
        let Some((label, nondefault)) = tx_witness_mod(t, &mut m, k) else { continue };
        if m == tx {
            continue;
        }
        let (txid2, wtxid2) = check_ids(&m, ctx)?;
        ensure!(txid2 == txid, "txid changed by a witness-only modification of {}", label);
        ensure!(wtxid2 != wtxid, "wtxid unchanged by a modification of witness field {}", label);
        ctx.class(&format!("mod:witness:{}", label));
        if nondefault {
            ctx.nontrivial(&("w", label, &txid, k));
        }
    }
    // non-witness modifications: txid changed
    for k in 0..TX_NONWIT_MODS {
        let mut m = tx.clone();
        let Some((label, nondefault)) = tx_nonwitness_mod(t, &mut m, k) else { continue };
        if m == tx {
            continue;
        }
        let (txid2, wtxid2) = check_ids(&m, ctx)?;
        ensure!(txid2 != txid, "txid unchanged by a modification of non-witness field {} \n base={:?}\n mod ={:?}", label, tx, m);
        ensure!(wtxid2 != wtxid, "wtxid unchanged by a modification of non-witness field {}", label);
        ctx.class(&format!("mod:non-witness:{}", label));
        if nondefault {
            ctx.nontrivial(&("n", label, &txid, k));
        }
    }
    Ok(())
}

/// index of the first input / output that differs (None: only version / lock time / counts differ)
fn first_changed_index(a: &Transaction, b: &Transaction) -> Option<usize> {
    let i = a.input.iter().zip(b.input.iter()).position(|(x, y)| x != y);
    let o = a.output.iter().zip(b.output.iter()).position(|(x, y)| x != y);
    match (i, o) {
        (Some(x), Some(y)) => Some(x.max(y)),
        (x, y) => x.or(y),
    }
}

/// `tx_ids` on transactions with every count class and elements varied at every index
/// (`ext_g1::gen_tx_x`); the choices of every modification (position first) are drawn *before* the
/// transaction, one window per modification kind, so that positions reach the high indices
fn tx_ids_big(t: &mut Tape, ctx: &mut Ctx) -> R {
    let windows: Vec<Vec<u8>> = (0..TX_WIT_MODS + TX_NONWIT_MODS)
        .map(|k| {
            let mut w = t.bytes(6);
            xg::expand_window(&mut w, k as u64, 160);
            w
        })
        .collect();
    let (sel_a, sel_b) = (t.u32(), t.u32());
    let o = TxOpts::default();
    let tx = xg::gen_tx_x(t, &o, &[1000]);
    let (txid, wtxid) = check_ids(&tx, ctx)?;
    let feats = xg::tx_features_x(&tx);
    for f in &feats {
        ctx.class(&format!("x:{}", f));
    }
    // a big transaction gets a tape-chosen quarter of the 23 modification kinds (each costs four hashes of it)
    let heavy = enc::tx_full(&tx).len() > 40_000;
    if heavy {
        ctx.class("x:tx-encoding>40000-bytes");
    }
    let runs = |k: usize| !heavy || ((sel_a >> k) & (sel_b >> k) & 1) == 1;
    for k in 0..TX_WIT_MODS {
        if !runs(k) {
            continue;
        }
        let mut m = tx.clone();
        let mut wt = Tape::new(&windows[k]);
        let Some((label, nondefault)) = tx_witness_mod(&mut wt, &mut m, k) else { continue };
        if m == tx {
            continue;
        }
        let (txid2, wtxid2) = check_ids(&m, ctx)?;
        let at = first_changed_index(&tx, &m);
        ensure!(txid2 == txid, "txid changed by a witness-only modification of {} (element {:?} of {} inputs / {} outputs)", label, at, tx.input.len(), tx.output.len());
        ensure!(wtxid2 != wtxid, "wtxid unchanged by a modification of witness field {} (element {:?} of {} inputs / {} outputs)", label, at, tx.input.len(), tx.output.len());
        ctx.class(&format!("xmod:witness:{}", label));
        if at.map_or(false, |a| a >= 60) {
            ctx.class("xmod:witness:at-index>=60");
        }
        if nondefault {
            ctx.nontrivial(&("xw", label, &txid, k));
        }
    }
    for k in 0..TX_NONWIT_MODS {
        if !runs(TX_WIT_MODS + k) {
            continue;
        }
        let mut m = tx.clone();
        let mut wt = Tape::new(&windows[TX_WIT_MODS + k]);
        let Some((label, nondefault)) = tx_nonwitness_mod(&mut wt, &mut m, k) else { continue };
        if m == tx {
            continue;
        }
        let (txid2, wtxid2) = check_ids(&m, ctx)?;
        let at = first_changed_index(&tx, &m);
        ensure!(txid2 != txid, "txid unchanged by a modification of non-witness field {} (element {:?} of {} inputs / {} outputs)", label, at, tx.input.len(), tx.output.len());
        ensure!(wtxid2 != wtxid, "wtxid unchanged by a modification of non-witness field {} (element {:?} of {} inputs / {} outputs)", label, at, tx.input.len(), tx.output.len());
        ctx.class(&format!("xmod:non-witness:{}", label));
        if at.map_or(false, |a| a >= 60) {
            ctx.class("xmod:non-witness:at-index>=60");
        }
        if nondefault {
            ctx.nontrivial(&("xn", label, &txid, k));
        }
    }
    Ok(())
}

fn lib_hash(h: &BlockHeader) -> Result<[u8; 32], Failure> {
    guard::guard("block_hash", 0, || h.block_hash().to_byte_array())
}
fn check_hash(h: &BlockHeader, ctx: &mut Ctx) -> Result<[u8; 32], Failure> {
    let got = lib_hash(h)?;
    ctx.eval();
    let mut b = Vec::new();
    enc::header(&mut b, h, true);
    ensure_eq!(hex(&got), hex(&sha256d(&b)), "block hash is not sha256d of the header without solution / signblock witness (long fields: {:?})", xg::header_features_x(h));
    Ok(got)
}

fn other_params(t: &mut Tape, cur: &dynafed::Params) -> (dynafed::Params, &'static str) {
    let mut p = cur.clone();
    let label = match &mut p {
        dynafed::Params::Null => {
            let n = gen::gen_params(t);
            p = if n.is_null() {
                dynafed::Params::Compact {
                    signblockscript: Script::new(),
                    signblock_witness_limit: 0,
                    elided_root: dynafed::ElidedRoot::from_byte_array([0; 32]),
                }
            } else {
                n
            };
            "params.variant"
        }
        dynafed::Params::Compact { signblockscript, signblock_witness_limit, elided_root } => match t.below(4) {
            0 => {
                *signblockscript = other_script(t, signblockscript);
                "compact.signblockscript"
            }
            1 => {
                *signblock_witness_limit ^= 1 << t.below(32);
                "compact.signblock_witness_limit"
            }
            2 => {
                *elided_root = dynafed::ElidedRoot::from_byte_array(flip32(t, elided_root.to_byte_array()));
                "compact.elided_root"
            }
            _ => {
                p = dynafed::Params::Null;
                "params.variant"
            }
        },
        dynafed::Params::Full(f) => match t.below(6) {
            0 => {
                f.signblockscript = other_script(t, &f.signblockscript);
                "full.signblockscript"
            }
            1 => {
                f.signblock_witness_limit ^= 1 << t.below(32);
                "full.signblock_witness_limit"
            }
            2 => {
                let s = other_script(t, &Script::from(f.fedpeg_program.to_bytes()));
                f.fedpeg_program = elements::bitcoin::ScriptBuf::from_bytes(s.into_bytes());
                "full.fedpeg_program"
            }
            3 => {
                f.fedpegscript = other_script(t, &Script::from(f.fedpegscript.clone())).into_bytes();
                "full.fedpegscript"
            }
            4 => {
                f.extension_space = other_stack(t, &f.extension_space);
                "full.extension_space"
            }
            _ => {
                // same signblock fields, compact form: a different serialization
                let c = f.clone().into_compact();
                p = c;
                "params.variant"
            }
        },
    };
    (p, label)
}

const HDR_NONWIT_MODS: usize = 9;
fn header_nonwitness_mod(t: &mut Tape, h: &mut BlockHeader, k: usize) -> Option<&'static str> {
    match k {
        0 => {
            h.version ^= 1 << t.below(31);
            Some("version")
        }
        1 => {
            h.prev_blockhash = BlockHash::from_byte_array(flip32(t, h.prev_blockhash.to_byte_array()));
            Some("prev_blockhash")
        }
        2 => {
            h.merkle_root = TxMerkleNode::from_byte_array(flip32(t, h.merkle_root.to_byte_array()));
            Some("merkle_root")
        }
        3 => {
            h.time ^= 1 << t.below(32);
            Some("time")
        }
        4 => {
            h.height ^= 1 << t.below(32);
            Some("height")
        }
        5 => match &mut h.ext {
            BlockExtData::Proof { challenge, .. } => {
                *challenge = other_script(t, challenge);
                Some("challenge")
            }
            _ => None,
        },
        6 => match &mut h.ext {
            BlockExtData::Dynafed { current, .. } => {
                let (p, l) = other_params(t, current);
                *current = p;
                Some(match l {
                    "params.variant" => "current.variant",
                    _ => "current.field",
                })
            }
            _ => None,
        },
        7 => match &mut h.ext {
            BlockExtData::Dynafed { proposed, .. } => {
                let (p, l) = other_params(t, proposed);
                *proposed = p;
                Some(match l {
                    "params.variant" => "proposed.variant",
                    _ => "proposed.field",
                })
            }
            _ => None,
        },
        _ => {
            // proof <-> dynafed with empty contents: only the dynafed marker bit and layout differ
            h.ext = match &h.ext {
                BlockExtData::Proof { .. } => BlockExtData::Dynafed {
                    current: dynafed::Params::Null,
                    proposed: dynafed::Params::Null,
                    signblock_witness: vec![],
                },
                BlockExtData::Dynafed { .. } => BlockExtData::Proof { challenge: Script::new(), solution: Script::new() },
            };
            Some("ext.kind")
        }
    }
}

fn header_witness_mod(t: &mut Tape, h: &mut BlockHeader) -> (&'static str, bool) {
    match &mut h.ext {
        BlockExtData::Proof { solution, .. } => {
            let nd = !solution.is_empty();
            *solution = other_script(t, solution);
            ("solution", nd)
        }
        BlockExtData::Dynafed { signblock_witness, .. } => {
            let nd = !signblock_witness.is_empty();
            *signblock_witness = other_stack(t, signblock_witness);
            ("signblock_witness", nd)
        }
    }
}

/// a solution on the other side of a compact-size boundary
fn other_solution_x(t: &mut Tape, cur: &Script) -> Script {
    let targets = [0usize, 1, 0xfc, 0xfd, 0xfe, 0xffff, 0x10000, cur.len() + 1, cur.len().saturating_sub(1)];
    let mut n = targets[t.below(targets.len())];
    if n == cur.len() {
        n += 1;
    }
    let s = t.u8();
    Script::from((0..n).map(|i| s.wrapping_add((i as u8).wrapping_mul(13))).collect::<Vec<u8>>())
}
/// a signblock witness whose count or one item sits on the other side of a compact-size boundary
fn other_stack_x(t: &mut Tape, cur: &[Vec<u8>]) -> Vec<Vec<u8>> {
    let mut s = cur.to_vec();
    match t.below(4) {
        0 => {
            let targets = [0usize, 1, 0xfc, 0xfd, 0xfe, 0x100, 0x10000];
            let mut n = targets[t.below(targets.len())];
            if n == s.len() {
                n += 1;
            }
            s.resize(n, vec![]);
        }
        1 if !s.is_empty() => {
            let k = t.below(s.len());
            let targets = [0usize, 0xfc, 0xfd, 0xfe, 0xffff, 0x10000];
            let mut n = targets[t.below(targets.len())];
            if n == s[k].len() {
                n += 1;
            }
            let f = t.u8();
            s[k] = (0..n).map(|i| f.wrapping_add((i as u8).wrapping_mul(7))).collect();
        }
        2 if !s.is_empty() => {
            // same bytes, different item boundaries: drop the last byte of one item
            let k = t.below(s.len());
            if s[k].pop().is_none() {
                s[k].push(1);
            }
        }
        _ => s.push(vec![0xfd; 0xfd]),
    }
    s
}

fn headers(t: &mut Tape, ctx: &mut Ctx) -> R {
    headers_impl(t, ctx, false)
}
/// `headers` on headers whose solution / challenge / parameter scripts / witness items / extension
/// entries and whose witness / extension counts cross 0xfd and 0x10000 (`ext_g1::gen_header_x`);
/// the witness modification also moves a length or count across a boundary; `Block::block_hash`
/// with transactions in the block
fn headers_big(t: &mut Tape, ctx: &mut Ctx) -> R {
    headers_impl(t, ctx, true)
}

fn headers_impl(t: &mut Tape, ctx: &mut Ctx, big: bool) -> R {
    // big: the witness-modification choices are drawn before the header
    let plan = if big { xg::plan_tape(t, 12, 32) } else { Vec::new() };
    let h = if big { xg::gen_header_x(t) } else { gen::gen_header(t) };
    let hash = check_hash(&h, ctx)?;
    if big {
        for f in xg::header_features_x(&h) {
            ctx.class(&format!("x:{}", f));
        }
    }
    let dyna = matches!(h.ext, BlockExtData::Dynafed { .. });
    ctx.class(if dyna { "header:dynafed" } else { "header:proof" });
    if ctx.wants_sample("header") {
        ctx.sample("header", || json!({"dynafed": dyna, "hash": hex(&hash), "header": format!("{:?}", h).chars().take(300).collect::<String>()}));
    }
    // Block::block_hash
    let blk = Block { header: h.clone(), txdata: vec![] };
    let bh = guard::guard("Block::block_hash", 0, || blk.block_hash().to_byte_array())?;
    ensure!(bh == hash, "Block::block_hash differs from its header's hash");
    if big {
        // Block::block_hash is the header's hash whatever the block holds
        let o = TxOpts { big: false, max_in: 2, max_out: 2, ..TxOpts::default() };
        let n = 1 + t.below(3);
        let blk = Block { header: h.clone(), txdata: (0..n).map(|_| gen::gen_tx(t, &o)).collect() };
        let bh = guard::guard("Block::block_hash", 0, || blk.block_hash().to_byte_array())?;
        ensure!(bh == hash, "Block::block_hash of a block with {} transactions differs from its header's hash", n);
        ctx.class("x:block_hash-with-transactions");
        // boundary-crossing witness modification
        let mut pt = Tape::new(&plan);
        let mut m = h.clone();
        let label = match &mut m.ext {
            BlockExtData::Proof { solution, .. } => {
                *solution = other_solution_x(&mut pt, solution);
                "solution"
            }
            BlockExtData::Dynafed { signblock_witness, .. } => {
                *signblock_witness = other_stack_x(&mut pt, signblock_witness);
                "signblock_witness"
            }
        };
        if m != h {
            let h2 = check_hash(&m, ctx)?;
            ensure!(h2 == hash, "block hash changed by modifying {} (to a length / count across a compact-size boundary)\n base={:?}\n mod ={:?}", label, xg::header_features_x(&h), xg::header_features_x(&m));
            ctx.class(&format!("xmod:witness:{}", label));
            ctx.nontrivial(&("xhw", label, &hash));
        }
    }
    // witness-class modification
    {
        let mut m = h.clone();
        let (label, nd) = header_witness_mod(t, &mut m);
        if m != h {
            let h2 = check_hash(&m, ctx)?;
            ensure!(h2 == hash, "block hash changed by modifying {}", label);
            ctx.class(&format!("mod:witness:{}", label));
            if nd {
                ctx.nontrivial(&("hw", label, &hash));
            }
        }
    }
    // clear_witness
    let mut cleared = h.clone();
    guard::guard("clear_witness", 0, || cleared.clear_witness())?;
    let hc = check_hash(&cleared, ctx)?;
    ensure!(hc == hash, "clear_witness changed the block hash");
    match &cleared.ext {
        BlockExtData::Proof { solution, .. } => ensure!(solution.is_empty(), "clear_witness left a solution"),
        BlockExtData::Dynafed { signblock_witness, .. } => ensure!(signblock_witness.is_empty(), "clear_witness left a signblock witness"),
    }
    // it removes exactly the data outside the hash: everything else is untouched
    let mut expect = h.clone();
    match &mut expect.ext {
        BlockExtData::Proof { solution, .. } => *solution = Script::new(),
        BlockExtData::Dynafed { signblock_witness, .. } => signblock_witness.clear(),
    }
    ensure!(cleared == expect, "clear_witness changed more than the solution / signblock witness:\n before={:?}\n after ={:?}", h, cleared);
    let mut twice = cleared.clone();
    guard::guard("clear_witness", 0, || twice.clear_witness())?;
    ensure!(twice == cleared, "clear_witness is not idempotent");
    if dyna {
        if let BlockExtData::Dynafed { signblock_witness, .. } = &h.ext {
            if !signblock_witness.is_empty() {
                ctx.nontrivial(&("clear-dynafed-nonempty", &hash));
                ctx.class("clear_witness:dynafed-with-signblock-witness");
            }
        }
    }
    // non-witness modifications, on the original and on the cleared header
    for (base, base_hash, tag) in [(&h, hash, "orig"), (&cleared, hc, "cleared")] {
        for k in 0..HDR_NONWIT_MODS {
            let mut m = base.clone();
            let Some(label) = header_nonwitness_mod(t, &mut m, k) else { continue };
            if &m == base {
                continue;
            }
            let h2 = check_hash(&m, ctx)?;
            ensure!(h2 != base_hash, "block hash unchanged by a modification of {} ({} header)\n base={:?}\n mod ={:?}", label, tag, base, m);
            ctx.class(&format!("mod:non-witness:{}", label));
            ctx.nontrivial(&("hn", label, tag, &hash));
        }
    }
    Ok(())
}

// ---- fields of a megabyte and more (deterministic) -------------------------------------------------------

/// Transactions and headers carrying one byte string of 2^20 − 1 … 2^21 bytes (below the decoder's 4 000 000
/// bound, i.e. values the decoder produces): ids equal the reference hashes and a one-byte change deep inside
/// the long field changes them.
fn huge_fields(idx: u64, seed: u64, ctx: &mut Ctx) -> R {
    const LENS: [usize; 4] = [(1 << 20) - 1, 1 << 20, (1 << 20) + 1, 1 << 21];
    let len = LENS[(idx % 4) as usize];
    let place = (idx / 4) % 4;
    let fill = seeded_bytes(seed, idx, 64);
    let mut bytes: Vec<u8> = (0..len).map(|k| fill[k % 64] ^ (k >> 6) as u8).collect();
    let pos = len - 1 - (idx as usize % 1000);
    let mut tape_bytes = seeded_bytes(seed ^ 0x5a5a, idx, 512);
    tape_bytes[0] |= 1;
    let mut t = Tape::new(&tape_bytes);
    let what;
    if place < 3 {
        let mut tx = gen::gen_tx(&mut t, &TxOpts { max_in: 2, max_out: 2, ..Default::default() });
        if tx.input.is_empty() {
            tx.input.push(gen::gen_txin(&mut t, &TxOpts::default()));
        }
        if tx.output.is_empty() {
            tx.output.push(gen::gen_txout(&mut t, &TxOpts::default()));
        }
        let set = |tx: &mut Transaction, b: &[u8]| match place {
            0 => tx.output[0].script_pubkey = Script::from(b.to_vec()),
            1 => tx.input[0].script_sig = Script::from(b.to_vec()),
            _ => tx.input[0].witness.script_witness = vec![b.to_vec()],
        };
        what = ["script_pubkey", "script_sig", "script-witness item"][place as usize];
        set(&mut tx, &bytes);
        let (a, aw) = check_ids(&tx, ctx)?;
        bytes[pos] ^= 0x01;
        set(&mut tx, &bytes);
        let (b, bw) = check_ids(&tx, ctx)?;
        if place < 2 {
            ensure!(a != b && aw != bw, "changing byte {} of a {}-byte {} does not change the txid / wtxid", pos, len, what);
        } else {
            ensure!(a == b && aw != bw, "changing byte {} of a {}-byte {}: the txid must stay and the wtxid must change", pos, len, what);
        }
    } else {
        let mut h = gen::gen_header(&mut t);
        what = "header challenge / signblockscript";
        let set = |h: &mut BlockHeader, b: &[u8]| match &mut h.ext {
            elements::BlockExtData::Proof { challenge, .. } => *challenge = Script::from(b.to_vec()),
            elements::BlockExtData::Dynafed { current, .. } => {
                *current = dynafed::Params::Compact { signblockscript: Script::from(b.to_vec()), signblock_witness_limit: 7, elided_root: dynafed::ElidedRoot::from_byte_array([9; 32]) }
            }
        };
        set(&mut h, &bytes);
        let a = check_hash(&h, ctx)?;
        bytes[pos] ^= 0x01;
        set(&mut h, &bytes);
        let b = check_hash(&h, ctx)?;
        ensure!(a != b, "changing byte {} of a {}-byte {} does not change the block hash", pos, len, what);
    }
    ctx.class(&format!("huge-field:{}:{}-bytes", what, len));
    ctx.nontrivial(&idx);
    if ctx.wants_sample("huge-field") {
        ctx.sample("huge-field", || json!({"field": what, "bytes": len, "changed_byte": pos}));
    }
    Ok(())
}

pub fn property() -> Property {
    Property {
        id: "C02",
        rule: "tx_ids: tape-generated transactions (as C01); oracle: txid/wtxid == harness sha256d of the reference \
               stripped/full encoding, wtxid==txid <=> no witness; then every one of 6 witness-field modification kinds \
               (must keep txid, change wtxid) and 17 non-witness modification kinds (must change txid and wtxid), each on \
               a tape-chosen position. tx_ids_big: the same on transactions with every count class (up to 1000) whose \
               elements are varied at every index; the position and choices of each modification are drawn before the \
               transaction so that they reach high indices (transactions above 40000 bytes get a tape-chosen quarter of \
               the kinds). headers: proof/dynafed headers; block hash == sha256d(reference header without \
               solution/signblock witness, dynafed bit set); solution/signblock-witness change keeps the hash; clear_witness \
               keeps hash, is idempotent, removes exactly that data; 9 non-witness modification kinds (incl. every dynafed \
               parameter field and variant) change the hash on the original and the cleared header. headers_big: the same \
               on headers whose solution / challenge / parameter scripts / witness items / extension entries and witness / \
               extension counts cross 0xfd and 0x10000, plus a witness modification that moves a length or a count across \
               such a boundary, plus Block::block_hash of a block that holds transactions. Non-trivial: the \
               modified field is non-default in the base value; distinct by (field, base id).",
        assumptions: &["harness SHA-256 anchored on FIPS vectors; reference encoder anchored on the repository vectors (C01 vectors sub-check)"],
        subs: vec![
            Sub { name: "tx_ids", kind: Kind::Tape { max_len: 3000, quick: 80_000, thorough: 1_200_000, f: tx_ids } },
            Sub { name: "headers", kind: Kind::Tape { max_len: 2000, quick: 80_000, thorough: 1_200_000, f: headers } },
            Sub { name: "tx_ids_big", kind: Kind::Tape { max_len: 3000, quick: 8_000, thorough: 200_000, f: tx_ids_big } },
            Sub { name: "headers_big", kind: Kind::Tape { max_len: 2000, quick: 12_000, thorough: 300_000, f: headers_big } },
            Sub { name: "huge_fields", kind: Kind::Index { count: |t| t.pick(16, 64), exhaustive: false, f: huge_fields } },
        ],
        known: vec![],
    }
}
