//! C04 — blinding yields a transaction that verifies and that receivers can unblind.
use crate::refimpl::Variant as _;
use elements::confidential::{Asset, AssetBlindingFactor, Nonce, Value, ValueBlindingFactor};
use elements::secp256k1_zkp::{PublicKey, SecretKey};
use elements::secp256k1_zkp::Generator;
use elements::{Address, AddressParams, CtLocation, CtLocationType, SurjectionInput, Transaction, TxOut, TxOutSecrets};
use rand::SeedableRng;
use rand_chacha::ChaCha20Rng;
use serde_json::json;
use std::collections::BTreeMap;

use crate::engine::*;
use crate::gen::ct::{self, CtCase};
use crate::gen::ext_g3::{self as ext, CtExt, CtOpts};
use crate::gen::{pool, secp};
use crate::refimpl::enc;
use crate::{ensure, ensure_eq};

pub type BlindMap = BTreeMap<CtLocation, (AssetBlindingFactor, ValueBlindingFactor, SecretKey)>;

/// blind a generated case; returns the blinded transaction and the reported factors
pub fn blind_case(case: &CtCase) -> Result<(Transaction, BlindMap), Failure> {
    blind_case_with(case, false)
}

/// `blind_issuances` may only be true for a case without issuances (where it has nothing to act on)
pub fn blind_case_with(case: &CtCase, blind_issuances: bool) -> Result<(Transaction, BlindMap), Failure> {
    let mut tx = case.tx.clone();
    let mut rng = ChaCha20Rng::from_seed(case.rng_seed);
    let r = guard::guard("Transaction::blind", 0, || tx.blind(&mut rng, secp(), &case.secrets, blind_issuances))?;
    match r {
        Ok(m) => Ok((tx, m)),
        Err(e) => Err(Failure::new(format!(
            "Transaction::blind(blind_issuances={}) failed on a balanced explicit transaction with true input secrets: {} ({:?})\n marked outputs={:?}, unmarked outputs with an explicit nonce={:?}, of {}\n inputs={} assets={} issuance={}",
            blind_issuances,
            e,
            e,
            case.receivers.keys().collect::<Vec<_>>(),
            (0..case.tx.output.len()).filter(|i| case.tx.output[*i].nonce.v_expl()).collect::<Vec<_>>(),
            case.tx.output.len(),
            case.tx.input.len(),
            case.n_assets,
            case.has_issuance
        ))),
    }
}

pub fn describe(case: &CtCase) -> serde_json::Value {
    json!({
        "inputs": case.spent.iter().map(|s| if s.value.v_conf() { "confidential" } else { "explicit" }).collect::<Vec<_>>(),
        "issuances": case.tx.input.iter().filter(|i| i.has_issuance()).count(),
        "assets": case.n_assets,
        "outputs": case.tx.output.iter().enumerate().map(|(i, o)| json!({
            "value": o.value.explicit(),
            "kind": if o.is_fee() { "fee" } else if case.receivers.contains_key(&i) { "to-blind" } else if o.nonce.v_expl() { "plain+explicit-nonce" } else { "plain" },
            "script": format!("{} bytes, first {:02x?}", o.script_pubkey.len(), o.script_pubkey.as_bytes().first())})).collect::<Vec<_>>(),
    })
}

pub fn check_blinded(case: &CtCase, tx: &Transaction, map: &BlindMap, ctx: &mut Ctx) -> R {
    // keys of the returned map == marked output positions
    let keys: Vec<usize> = map.keys().map(|l| l.input_index).collect();
    let want: Vec<usize> = case.receivers.keys().copied().collect();
    ensure!(map.keys().all(|l| l.ty == CtLocationType::Input), "blind() reported issuance locations although issuances were not blinded");
    ensure_eq!(keys, want, "positions reported by blind() differ from the outputs marked for blinding");
    // For half of the cases (a tape bit) the verifier first sees two relatives that it has to reject:
    // the same transaction without one range proof (same txid) and the same transaction against an
    // altered spent-output list (same wtxid). The result must pass whatever was verified before.
    let after_rejected = case.rng_seed[1] & 1 == 1;
    if after_rejected {
        if let Some(i) = want.first() {
            let mut bad = tx.clone();
            bad.output[*i].witness.rangeproof = None;
            let _ = guard::guard("verify_tx_amt_proofs", 0, || bad.verify_tx_amt_proofs(secp(), &case.spent))?;
        }
        let mut s2 = case.spent.clone();
        if let Some(first) = s2.first_mut() {
            first.value = match first.value {
                Value::Explicit(v) => Value::Explicit(if v == u64::MAX { v - 1 } else { v + 1 }),
                _ => Value::Confidential(pool().commitments[0]),
            };
        }
        let _ = guard::guard("verify_tx_amt_proofs", 0, || tx.verify_tx_amt_proofs(secp(), &s2))?;
        ctx.class("verified-after-two-rejected-relatives");
    }
    // verification against the spent outputs
    let v = guard::guard("verify_tx_amt_proofs", 0, || tx.verify_tx_amt_proofs(secp(), &case.spent))?;
    ctx.eval();
    if let Err(e) = v {
        return Err(Failure::new(format!(
            "blinded transaction does not pass amount verification{}: {} ({:?})\n case={}",
            if after_rejected { " (verified after the same transaction had been rejected without a range proof and against an altered spent-output list)" } else { "" },
            e,
            e,
            describe(case)
        )));
    }
    // ... and by the rule itself (Elements VerifyAmounts on the zkp primitives, harness-side issuance ids
    // and domain order), so that a blinder and a verifier that agree on a wrong rule do not pass
    if let Err(e) = ext::ref_verify(tx, &case.spent) {
        return Err(Failure::new(format!(
            "blinded transaction is accepted by verify_tx_amt_proofs but does not pass confidential amount verification as Elements defines it (independent verifier): {}\n case={}",
            e,
            describe(case)
        )));
    }
    ctx.eval();
    ensure_eq!(tx.output.len(), case.tx.output.len(), "blind() changed the number of outputs");
    ensure!(tx.input == case.tx.input && tx.version == case.tx.version && tx.lock_time == case.tx.lock_time, "blind() changed inputs / version / lock time");
    for (i, out) in tx.output.iter().enumerate() {
        let orig = &case.tx.output[i];
        match case.receivers.get(&i) {
            None => ensure!(out == orig, "output {} was not marked for blinding but was modified", i),
            Some(sk) => {
                let (abf, vbf, eph) = map
                    .get(&CtLocation { input_index: i, ty: CtLocationType::Input })
                    .ok_or_else(|| Failure::new(format!("no blinding factors reported for output {}", i)))?;
                let (asset, value) = match (orig.asset.explicit(), orig.value.explicit()) {
                    (Some(a), Some(v)) => (a, v),
                    _ => return Err(Failure::new("generator error: non-explicit output".to_string())),
                };
                ensure!(out.asset.v_conf() && out.value.v_conf(), "marked output {} is not confidential after blinding", i);
                ensure!(out.script_pubkey == orig.script_pubkey, "blinding changed the script of output {} from {:x} to {:x}", i, orig.script_pubkey, out.script_pubkey);
                ensure!(out.witness.rangeproof.is_some() && out.witness.surjection_proof.is_some(), "blinded output {} lacks a proof", i);
                // unblind with the receiver key
                let un = guard::guard("TxOut::unblind", 0, || out.unblind(secp(), *sk))?;
                ctx.eval();
                match un {
                    Ok(s) => {
                        ensure!(
                            s.asset == asset && s.value == value && s.asset_bf == *abf && s.value_bf == *vbf,
                            "output {} unblinds to {:?}, expected asset {} value {} with the reported factors ({}, {})",
                            i, s, asset, value, abf, vbf
                        );
                    }
                    Err(e) => return Err(Failure::new(format!("receiver cannot unblind output {}: {} ({:?})", i, e, e))),
                }
                // factors reproduce the commitments
                let a2 = guard::guard("Asset::new_confidential", 0, || Asset::new_confidential(secp(), asset, *abf))?;
                let v2 = guard::guard("Value::new_confidential_from_assetid", 0, || Value::new_confidential_from_assetid(secp(), value, asset, *vbf, *abf))?;
                ensure!(a2 == out.asset, "reported asset blinding factor does not reproduce the asset commitment of output {}", i);
                ensure!(v2 == out.value, "reported value blinding factor does not reproduce the value commitment of output {}", i);
                // nonce is the ephemeral key
                ensure!(out.nonce == Nonce::Confidential(PublicKey::from_secret_key(secp(), eph)), "nonce of output {} is not the public key of the reported ephemeral key", i);
                // another key does not return these secrets
                let other = pool().seckeys.iter().find(|k| *k != sk).copied();
                if let Some(ok) = other {
                    let un2 = guard::guard("TxOut::unblind", 0, || out.unblind(secp(), ok))?;
                    if let Ok(s2) = un2 {
                        ensure!(!(s2.asset == asset && s2.value == value && s2.value_bf == *vbf), "output {} unblinds with a key that is not the receiver's", i);
                    }
                }
            }
        }
    }
    // and passes again, after all the calls above
    let v = guard::guard("verify_tx_amt_proofs", 0, || tx.verify_tx_amt_proofs(secp(), &case.spent))?;
    ctx.eval();
    if let Err(e) = v {
        return Err(Failure::new(format!("blinded transaction passes amount verification once and fails when verified again: {} ({:?})\n case={}", e, e, describe(case))));
    }
    Ok(())
}

/// C01 (consensus round trip) on a value produced by the blinding functions. A mismatch is C01's
/// to report, not a violation of C04: it is counted in the histogram only.
fn c01_probe<T: elements::encode::Encodable + elements::encode::Decodable + PartialEq + std::fmt::Debug>(name: &str, v: &T, want: Option<&[u8]>, ctx: &mut Ctx) {
    if let Err(f) = super::c01::roundtrip_value(name, v, want, &[], ctx) {
        ctx.class("c01-mismatch-on-blinded-value(not a C04 failure)");
        let mut m = f.msg;
        m.truncate(300);
        ctx.sample("c01-mismatch-on-blinded-value", || json!({ "type": name, "message": m }));
    }
}

const EXT_OPTS: CtOpts = CtOpts { allow_unmarked: false, ext_scripts: true, explicit_nonces: true, burn_outputs: true, huge: true };

fn shape_classes(x: &CtExt, ctx: &mut Ctx) {
    if x.huge {
        ctx.class("huge-amount(2^63-1..2^64-1)");
        if x.case.tx.output.iter().enumerate().any(|(i, o)| x.case.receivers.contains_key(&i) && o.value.explicit().map_or(false, |v| v == (1 << 63) - 1)) {
            ctx.class("huge-amount:marked-output==2^63-1");
        }
    }
    if !x.burn.is_empty() {
        ctx.class("positive-amount-on-burn-script(unmarked)");
    }
    if !x.explicit_nonce.is_empty() {
        ctx.class("explicit-nonce-on-unmarked-output");
    }
    if !x.ext_marked.is_empty() {
        ctx.class("marked-output:p2wsh-or-v1plus-script");
    }
    if x.ext_script_on_non_last_marked() {
        ctx.class("marked-output:p2wsh-or-v1plus-script-on-non-last");
    }
}

fn blind_and_check(t: &mut Tape, ctx: &mut Ctx) -> R {
    let x = ext::gen_ct_case_ext(t, EXT_OPTS);
    let case = &x.case;
    // without issuances the flag has nothing to act on and must not change anything
    let blind_issuances = !case.has_issuance && t.bool();
    let (tx, map) = blind_case_with(case, blind_issuances)?;
    check_blinded(case, &tx, &map, ctx)?;
    let want = enc::tx_full(&tx);
    c01_probe("Transaction", &tx, Some(&want), ctx);
    let marked: Vec<usize> = case.receivers.keys().copied().collect();
    let last_marked_not_last = marked.last().map_or(false, |m| *m + 1 != case.tx.output.len());
    ctx.class(&format!("marked:{}", marked.len().min(4)));
    ctx.class(&format!("assets:{}", case.n_assets.min(4)));
    if case.has_issuance {
        ctx.class("with-issuance");
    }
    if case.has_conf_input {
        ctx.class("with-confidential-input");
    }
    if case.has_partial_input {
        ctx.class("with-partially-blinded-input");
    }
    if last_marked_not_last {
        ctx.class("last-marked-is-not-last-output");
    }
    if blind_issuances {
        ctx.class("blind_issuances=true-without-issuance");
    }
    shape_classes(&x, ctx);
    if marked.len() >= 2 || case.n_assets >= 2 || case.has_issuance || case.has_conf_input || last_marked_not_last || x.huge || !x.ext_marked.is_empty() {
        ctx.nontrivial(&enc::tx_full(&case.tx));
    }
    let cls = format!(
        "case:marked{}{}{}{}",
        marked.len().min(3),
        if case.has_issuance { "+issuance" } else { "" },
        if case.has_partial_input { "+partial-in" } else if case.has_conf_input { "+conf-in" } else { "" },
        if x.huge { "+huge" } else { "" }
    );
    if ctx.wants_sample(&cls) {
        ctx.sample(&cls, || describe(case));
    }
    Ok(())
}

/// generators of the surjection domain, from the harness's knowledge of the input secrets
fn domain_of(secrets: &[TxOutSecrets]) -> Vec<Generator> {
    secrets
        .iter()
        .map(|x| if x.asset_bf == AssetBlindingFactor::zero() { Generator::new_unblinded(secp(), x.asset.into_tag()) } else { Generator::new_blinded(secp(), x.asset.into_tag(), x.asset_bf.into_inner()) })
        .collect()
}

/// both proofs of a constructed output, checked on the zkp primitives
fn proofs_valid(out: &TxOut, secrets: &[TxOutSecrets], what: &str) -> R {
    let (Asset::Confidential(g), Value::Confidential(c)) = (out.asset, out.value) else {
        return Err(Failure::new(format!("{}: the output is not fully confidential", what)));
    };
    let sp = out.witness.surjection_proof.as_ref().ok_or_else(|| Failure::new(format!("{}: no surjection proof", what)))?;
    ensure!(sp.verify(secp(), g, &domain_of(secrets)), "{}: the surjection proof does not verify against the generators of the spent outputs", what);
    let rp = out.witness.rangeproof.as_ref().ok_or_else(|| Failure::new(format!("{}: no range proof", what)))?;
    if let Err(e) = rp.verify(secp(), c, out.script_pubkey.as_bytes(), g) {
        return Err(Failure::new(format!("{}: the range proof does not verify for (commitment, script, asset generator): {}", what, e)));
    }
    Ok(())
}

/// the building blocks directly
fn building_blocks(t: &mut Tape, ctx: &mut Ctx) -> R {
    let p = pool();
    let case = ct::gen_ct_case(t, true);
    let mut rng = ChaCha20Rng::from_seed(case.rng_seed);
    let rk = t.below(p.seckeys.len());
    let receiver_sk = p.seckeys[rk];
    let receiver_pk = PublicKey::from_secret_key(secp(), &receiver_sk);
    // an output of an asset that some input carries
    let sec = case.secrets[t.below(case.secrets.len())];
    let value = ct::gen_amount(t);
    let (spk, ext_script) = ext::std_script_ext(t);
    let addr = match Address::from_script(&spk, Some(receiver_pk), &AddressParams::ELEMENTS) {
        Some(a) => a,
        None => return Err(Failure::new(format!("Address::from_script failed on the witness / p2pkh / p2sh script {:x}", spk))),
    };
    let which = t.below(4);
    let name = ["new_not_last_confidential", "with_txout_secrets", "new_last_confidential", "to_non_last_confidential"][which];
    let (out, abf, vbf): (TxOut, AssetBlindingFactor, ValueBlindingFactor) = match which {
        0 => {
            let r = guard::guard("new_not_last_confidential", 0, || TxOut::new_not_last_confidential(&mut rng, secp(), value, &addr, sec.asset, &case.secrets))?;
            match r {
                Ok((o, a, v, _)) => (o, a, v),
                Err(e) => return Err(Failure::new(format!("new_not_last_confidential failed: {}", e))),
            }
        }
        1 => {
            let abf = ct::abf_from(t, 1000);
            let vbf = ct::vbf_from(t, 1000);
            let eph = p.seckeys[t.below(p.seckeys.len())];
            let os = TxOutSecrets::new(sec.asset, abf, value, vbf);
            let r = guard::guard("with_txout_secrets", 0, || TxOut::with_txout_secrets(&mut rng, secp(), spk.clone(), receiver_pk, eph, os, &case.secrets))?;
            match r {
                Ok(o) => {
                    ensure!(o.nonce == Nonce::Confidential(PublicKey::from_secret_key(secp(), &eph)), "with_txout_secrets: nonce is not the ephemeral public key");
                    (o, abf, vbf)
                }
                Err(e) => return Err(Failure::new(format!("with_txout_secrets failed: {}", e))),
            }
        }
        2 => {
            let outs: Vec<TxOutSecrets> = Vec::new();
            let refs: Vec<&TxOutSecrets> = outs.iter().collect();
            let r = guard::guard("new_last_confidential", 0, || {
                TxOut::new_last_confidential(&mut rng, secp(), value, sec.asset, spk.clone(), receiver_pk, &case.secrets, &refs)
            })?;
            match r {
                Ok((o, a, v, _)) => (o, a, v),
                Err(e) => return Err(Failure::new(format!("new_last_confidential failed: {}", e))),
            }
        }
        _ => {
            let plain = TxOut { asset: Asset::Explicit(sec.asset), value: Value::Explicit(value), nonce: Nonce::Null, script_pubkey: spk.clone(), witness: Default::default() };
            let r = guard::guard("to_non_last_confidential", 0, || plain.to_non_last_confidential(&mut rng, secp(), receiver_pk, &case.secrets))?;
            match r {
                Ok((o, a, v, _)) => (o, a, v),
                Err(e) => return Err(Failure::new(format!("to_non_last_confidential failed: {}", e))),
            }
        }
    };
    ctx.eval();
    let un = guard::guard("TxOut::unblind", 0, || out.unblind(secp(), receiver_sk))?;
    match un {
        Ok(s) => ensure!(s == TxOutSecrets::new(sec.asset, abf, value, vbf), "{} output unblinds to {:?}", name, s),
        Err(e) => return Err(Failure::new(format!("{} output cannot be unblinded: {}", name, e))),
    }
    ensure!(Asset::new_confidential(secp(), sec.asset, abf) == out.asset, "asset commitment is not new_confidential(asset, abf)");
    ensure!(Value::new_confidential_from_assetid(secp(), value, sec.asset, vbf, abf) == out.value, "value commitment is not new_confidential_from_assetid(value, asset, vbf, abf)");
    ensure!(out.script_pubkey == spk, "{}: script changed from {:x} to {:x}", name, spk, out.script_pubkey);
    proofs_valid(&out, &case.secrets, name)?;
    c01_probe("TxOut(blinded)", &TxOut { witness: Default::default(), ..out.clone() }, None, ctx);
    ctx.class(&format!("constructor:{}", name));
    if ext_script {
        ctx.class("constructor:p2wsh-or-v1plus-script");
    }
    ctx.nontrivial(&(which, value, hex(&case.rng_seed)));
    Ok(())
}

/// A transaction blinded by hand from the building blocks: every marked output but one through one
/// of the non-last constructors (secrets passed as `TxOutSecrets` or as `SurjectionInput`s), one
/// tape-chosen marked output through `new_last_confidential` / `with_secrets_last` with the secrets
/// of all other outputs. The result must satisfy everything a `blind()` result must.
fn assembled(t: &mut Tape, ctx: &mut Ctx) -> R {
    let p = pool();
    let x = ext::gen_ct_case_ext(t, CtOpts { huge: false, ..EXT_OPTS });
    let case = &x.case;
    let mut rng = ChaCha20Rng::from_seed(case.rng_seed);
    let marked: Vec<usize> = case.receivers.keys().copied().collect();
    let solved = marked[marked.len() - 1 - t.below(marked.len())];
    let surj: Vec<SurjectionInput> = case.secrets.iter().map(|s| SurjectionInput::from_txout_secrets(*s)).collect();
    let mut tx = case.tx.clone();
    let mut map: BlindMap = BTreeMap::new();
    let mut out_secrets: BTreeMap<usize, TxOutSecrets> = BTreeMap::new();
    for (i, o) in case.tx.output.iter().enumerate() {
        let (Some(asset), Some(value)) = (o.asset.explicit(), o.value.explicit()) else {
            return Err(Failure::new("generator error: non-explicit output".to_string()));
        };
        if !case.receivers.contains_key(&i) {
            out_secrets.insert(i, TxOutSecrets::new(asset, AssetBlindingFactor::zero(), value, ValueBlindingFactor::zero()));
            continue;
        }
        if i == solved {
            continue;
        }
        let Some(pk) = o.nonce.commitment() else {
            return Err(Failure::new("generator error: marked output without key".to_string()));
        };
        let addr = match Address::from_script(&o.script_pubkey, Some(pk), &AddressParams::ELEMENTS) {
            Some(a) => a,
            None => return Err(Failure::new(format!("Address::from_script failed on the witness / p2pkh / p2sh script {:x}", o.script_pubkey))),
        };
        let how = t.below(4);
        let r = match how {
            0 => guard::guard("new_not_last_confidential", 0, || TxOut::new_not_last_confidential(&mut rng, secp(), value, &addr, asset, &case.secrets))?,
            1 => guard::guard("new_not_last_confidential", 0, || TxOut::new_not_last_confidential(&mut rng, secp(), value, &addr, asset, &surj))?,
            2 => guard::guard("to_non_last_confidential", 0, || o.to_non_last_confidential(&mut rng, secp(), pk, &case.secrets))?,
            _ => guard::guard("to_non_last_confidential", 0, || o.to_non_last_confidential(&mut rng, secp(), pk, &surj))?,
        };
        ctx.class(["assembled:new_not_last<TxOutSecrets>", "assembled:new_not_last<SurjectionInput>", "assembled:to_non_last<TxOutSecrets>", "assembled:to_non_last<SurjectionInput>"][how]);
        match r {
            Ok((no, abf, vbf, eph)) => {
                out_secrets.insert(i, TxOutSecrets::new(asset, abf, value, vbf));
                map.insert(CtLocation { input_index: i, ty: CtLocationType::Input }, (abf, vbf, eph));
                tx.output[i] = no;
            }
            Err(e) => return Err(Failure::new(format!("non-last constructor {} failed for output {}: {} ({:?})", how, i, e, e))),
        }
    }
    {
        let o = &case.tx.output[solved];
        let (Some(asset), Some(value), Some(pk)) = (o.asset.explicit(), o.value.explicit(), o.nonce.commitment()) else {
            return Err(Failure::new("generator error: marked output".to_string()));
        };
        let refs: Vec<&TxOutSecrets> = out_secrets.values().collect();
        if t.bool() {
            let abf = ct::abf_from(t, 7000);
            let eph = p.seckeys[t.below(p.seckeys.len())];
            let r = guard::guard("with_secrets_last", 0, || TxOut::with_secrets_last(&mut rng, secp(), value, o.script_pubkey.clone(), pk, asset, eph, abf, &case.secrets, &refs))?;
            ctx.class("assembled:with_secrets_last");
            match r {
                Ok((no, vbf)) => {
                    map.insert(CtLocation { input_index: solved, ty: CtLocationType::Input }, (abf, vbf, eph));
                    tx.output[solved] = no;
                }
                Err(e) => return Err(Failure::new(format!("with_secrets_last failed for output {}: {} ({:?})", solved, e, e))),
            }
        } else {
            let r = guard::guard("new_last_confidential", 0, || TxOut::new_last_confidential(&mut rng, secp(), value, asset, o.script_pubkey.clone(), pk, &case.secrets, &refs))?;
            ctx.class("assembled:new_last_confidential");
            match r {
                Ok((no, abf, vbf, eph)) => {
                    map.insert(CtLocation { input_index: solved, ty: CtLocationType::Input }, (abf, vbf, eph));
                    tx.output[solved] = no;
                }
                Err(e) => return Err(Failure::new(format!("new_last_confidential failed for output {}: {} ({:?})", solved, e, e))),
            }
        }
    }
    ctx.eval();
    check_blinded(case, &tx, &map, ctx)?;
    if Some(&solved) != marked.last() {
        ctx.class("assembled:solved-output-is-not-the-last-marked");
    }
    ctx.class(&format!("assembled:marked:{}", marked.len().min(4)));
    shape_classes(&x, ctx);
    ctx.nontrivial(&(enc::tx_full(&case.tx), solved));
    Ok(())
}

pub fn property() -> Property {
    Property {
        id: "C04",
        rule: "blind: tape-generated balanced explicit transactions: 1..4 inputs over 1..3 assets, each spent output explicit, \
               confidential or partially blinded (real commitments from tape-chosen blinding factors), optional explicit \
               issuance (+token, token only) / reissuance pseudo-inputs, per-asset totals split into 1..3 positive outputs \
               (values 1..2^60 edge-biased; about one case in 11 has a single input of 2^63-1, 2^63, 2^63+1 or 2^64-1 with marked \
               parts up to 2^63-1, the largest amount the range proof parameters admit), fee / plain / to-blind outputs in tape \
               order, >=1 marked with a receiver key; scripts p2pkh / p2sh / v0 20+32 / v1 with 2..40-byte programs / v2..v16; \
               unmarked outputs may carry an explicit 32-byte nonce or sit (with their positive amount) on an OP_RETURN / \
               oversize script; blinder RNG = ChaCha20(tape seed); blind_issuances = tape bool when there is no issuance. \
               Oracle: blind() Ok; reported positions == marked positions; verify_tx_amt_proofs Ok (for half of the cases after \
               two rejected relatives - a range proof removed, a spent amount altered - and always once more at the end) AND the harness's own \
               amount verifier (Elements VerifyAmounts on the zkp primitives with the harness's issuance ids) Ok; each marked \
               output unblinds with the receiver key to (asset, value, reported abf, vbf); factors reproduce both \
               commitments; nonce == pubkey(reported ephemeral key); script unchanged; unmarked outputs untouched; another key \
               does not unblind. A consensus round-trip mismatch of the result is only counted (it is C01's). \
               building_blocks: the four TxOut constructors directly (unblind, commitments, script, both proofs verified on the \
               zkp primitives). assembled: the same cases blinded by hand - non-last constructors with S = TxOutSecrets / \
               SurjectionInput, one tape-chosen marked output through new_last_confidential / with_secrets_last given all \
               other output secrets - under the same oracle. Non-trivial: >=2 marked outputs, >=2 assets, an issuance, a \
               confidential input, last marked output not last, a huge amount or a new-shape script; distinct by the explicit \
               transaction's encoding.",
        assumptions: &[
            "secp256k1-zkp (Pedersen commitments, range / surjection proofs, rewind) is the trusted base",
            "input secrets are passed in the order amount verification builds its surjection domain: input, its issuance, its token, next input",
            "amounts the range proof parameters (minimum value 1, exponent 0) admit: 1..=2^63-1; larger amounts occur on unmarked outputs only",
        ],
        subs: vec![
            Sub { name: "blind", kind: Kind::Tape { max_len: 2500, quick: 2_500, thorough: 100_000, f: blind_and_check } },
            Sub { name: "building_blocks", kind: Kind::Tape { max_len: 2500, quick: 1_500, thorough: 40_000, f: building_blocks } },
            Sub { name: "assembled", kind: Kind::Tape { max_len: 2500, quick: 800, thorough: 30_000, f: assembled } },
        ],
        known: vec![],
    }
}
