//! C04 — blinding yields a transaction that verifies and that receivers can unblind.
use elements::confidential::{Asset, AssetBlindingFactor, Nonce, Value, ValueBlindingFactor};
use elements::secp256k1_zkp::{PublicKey, SecretKey};
use elements::{Address, AddressParams, CtLocation, CtLocationType, Transaction, TxOut, TxOutSecrets};
use rand::SeedableRng;
use rand_chacha::ChaCha20Rng;
use serde_json::json;
use std::collections::BTreeMap;

use crate::engine::*;
use crate::gen::ct::{self, CtCase};
use crate::gen::{pool, secp};
use crate::refimpl::enc;
use crate::{ensure, ensure_eq};

pub type BlindMap = BTreeMap<CtLocation, (AssetBlindingFactor, ValueBlindingFactor, SecretKey)>;

/// blind a generated case; returns the blinded transaction and the reported factors
pub fn blind_case(case: &CtCase) -> Result<(Transaction, BlindMap), Failure> {
    let mut tx = case.tx.clone();
    let mut rng = ChaCha20Rng::from_seed(case.rng_seed);
    let r = guard::guard("Transaction::blind", 0, || tx.blind(&mut rng, secp(), &case.secrets, false))?;
    match r {
        Ok(m) => Ok((tx, m)),
        Err(e) => Err(Failure::new(format!(
            "Transaction::blind failed on a balanced explicit transaction with true input secrets: {} ({:?})\n marked outputs={:?} of {}\n inputs={} assets={} issuance={}",
            e,
            e,
            case.receivers.keys().collect::<Vec<_>>(),
            case.tx.output.len(),
            case.tx.input.len(),
            case.n_assets,
            case.has_issuance
        ))),
    }
}

pub fn describe(case: &CtCase) -> serde_json::Value {
    json!({
        "inputs": case.spent.iter().map(|s| if s.value.is_confidential() { "confidential" } else { "explicit" }).collect::<Vec<_>>(),
        "issuances": case.tx.input.iter().filter(|i| i.has_issuance()).count(),
        "assets": case.n_assets,
        "outputs": case.tx.output.iter().enumerate().map(|(i, o)| json!({
            "value": o.value.explicit(), "kind": if o.is_fee() { "fee" } else if case.receivers.contains_key(&i) { "to-blind" } else { "plain" }})).collect::<Vec<_>>(),
    })
}

pub fn check_blinded(case: &CtCase, tx: &Transaction, map: &BlindMap, ctx: &mut Ctx) -> R {
    // keys of the returned map == marked output positions
    let keys: Vec<usize> = map.keys().map(|l| l.input_index).collect();
    let want: Vec<usize> = case.receivers.keys().copied().collect();
    ensure!(map.keys().all(|l| l.ty == CtLocationType::Input), "blind() reported issuance locations although issuances were not blinded");
    ensure_eq!(keys, want, "positions reported by blind() differ from the outputs marked for blinding");
    // verification against the spent outputs
    let v = guard::guard("verify_tx_amt_proofs", 0, || tx.verify_tx_amt_proofs(secp(), &case.spent))?;
    ctx.eval();
    if let Err(e) = v {
        return Err(Failure::new(format!("blinded transaction does not pass amount verification: {} ({:?})\n case={}", e, e, describe(case))));
    }
    ensure_eq!(tx.output.len(), case.tx.output.len(), "blind() changed the number of outputs");
    ensure!(tx.input == case.tx.input && tx.version == case.tx.version && tx.lock_time == case.tx.lock_time, "blind() changed inputs / version / lock time");
    for (i, out) in tx.output.iter().enumerate() {
        let orig = &case.tx.output[i];
        match case.receivers.get(&i) {
            None => ensure!(out == orig, "output {} was not marked for blinding but was modified", i),
            Some(sk) => {
                let (abf, vbf, eph) = map
                    .get(&CtLocation { input_index: i, ty: CtLocationType::Input })
                    .ok_or_else(|| Failure::new(format!("no blinding factors reported for output {}", i)))?;
                let (asset, value) = match (orig.asset.explicit(), orig.value.explicit()) {
                    (Some(a), Some(v)) => (a, v),
                    _ => return Err(Failure::new("generator error: non-explicit output".to_string())),
                };
                ensure!(out.asset.is_confidential() && out.value.is_confidential(), "marked output {} is not confidential after blinding", i);
                ensure!(out.script_pubkey == orig.script_pubkey, "blinding changed the script of output {}", i);
                ensure!(out.witness.rangeproof.is_some() && out.witness.surjection_proof.is_some(), "blinded output {} lacks a proof", i);
                // unblind with the receiver key
                let un = guard::guard("TxOut::unblind", 0, || out.unblind(secp(), *sk))?;
                ctx.eval();
                match un {
                    Ok(s) => {
                        ensure!(
                            s.asset == asset && s.value == value && s.asset_bf == *abf && s.value_bf == *vbf,
                            "output {} unblinds to {:?}, expected asset {} value {} with the reported factors ({}, {})",
                            i, s, asset, value, abf, vbf
                        );
                    }
                    Err(e) => return Err(Failure::new(format!("receiver cannot unblind output {}: {} ({:?})", i, e, e))),
                }
                // factors reproduce the commitments
                let a2 = guard::guard("Asset::new_confidential", 0, || Asset::new_confidential(secp(), asset, *abf))?;
                let v2 = guard::guard("Value::new_confidential_from_assetid", 0, || Value::new_confidential_from_assetid(secp(), value, asset, *vbf, *abf))?;
                ensure!(a2 == out.asset, "reported asset blinding factor does not reproduce the asset commitment of output {}", i);
                ensure!(v2 == out.value, "reported value blinding factor does not reproduce the value commitment of output {}", i);
                // nonce is the ephemeral key
                ensure!(out.nonce == Nonce::Confidential(PublicKey::from_secret_key(secp(), eph)), "nonce of output {} is not the public key of the reported ephemeral key", i);
                // another key does not return these secrets
                let other = pool().seckeys.iter().find(|k| *k != sk).copied();
                if let Some(ok) = other {
                    let un2 = guard::guard("TxOut::unblind", 0, || out.unblind(secp(), ok))?;
                    if let Ok(s2) = un2 {
                        ensure!(!(s2.asset == asset && s2.value == value && s2.value_bf == *vbf), "output {} unblinds with a key that is not the receiver's", i);
                    }
                }
            }
        }
    }
    Ok(())
}

fn blind_and_check(t: &mut Tape, ctx: &mut Ctx) -> R {
    let case = ct::gen_ct_case(t, false);
    let (tx, map) = blind_case(&case)?;
    check_blinded(&case, &tx, &map, ctx)?;
    // C01 on values produced by the blinding functions: encodes / decodes back, reference bytes
    let want = enc::tx_full(&tx);
    super::c01::roundtrip_value("Transaction", &tx, Some(&want), &[], ctx)?;
    let marked: Vec<usize> = case.receivers.keys().copied().collect();
    let last_marked_not_last = marked.last().map_or(false, |m| *m + 1 != case.tx.output.len());
    ctx.class(&format!("marked:{}", marked.len().min(4)));
    ctx.class(&format!("assets:{}", case.n_assets.min(4)));
    if case.has_issuance {
        ctx.class("with-issuance");
    }
    if case.has_conf_input {
        ctx.class("with-confidential-input");
    }
    if case.has_partial_input {
        ctx.class("with-partially-blinded-input");
    }
    if last_marked_not_last {
        ctx.class("last-marked-is-not-last-output");
    }
    if marked.len() >= 2 || case.n_assets >= 2 || case.has_issuance || case.has_conf_input || last_marked_not_last {
        ctx.nontrivial(&enc::tx_full(&case.tx));
    }
    let cls = format!("case:marked{}{}{}", marked.len().min(3), if case.has_issuance { "+issuance" } else { "" }, if case.has_partial_input { "+partial-in" } else if case.has_conf_input { "+conf-in" } else { "" });
    if ctx.wants_sample(&cls) {
        ctx.sample(&cls, || describe(&case));
    }
    Ok(())
}

/// the building blocks directly
fn building_blocks(t: &mut Tape, ctx: &mut Ctx) -> R {
    let p = pool();
    let case = ct::gen_ct_case(t, true);
    let mut rng = ChaCha20Rng::from_seed(case.rng_seed);
    let rk = t.below(p.seckeys.len());
    let receiver_sk = p.seckeys[rk];
    let receiver_pk = PublicKey::from_secret_key(secp(), &receiver_sk);
    // an output of an asset that some input carries
    let sec = case.secrets[t.below(case.secrets.len())];
    let value = ct::gen_amount(t);
    let spk = ct::std_script(t);
    let addr = match Address::from_script(&spk, Some(receiver_pk), &AddressParams::ELEMENTS) {
        Some(a) => a,
        None => return Err(Failure::new("Address::from_script failed on a standard script".to_string())),
    };
    let which = t.below(3);
    let (out, abf, vbf): (TxOut, AssetBlindingFactor, ValueBlindingFactor) = match which {
        0 => {
            let r = guard::guard("new_not_last_confidential", 0, || TxOut::new_not_last_confidential(&mut rng, secp(), value, &addr, sec.asset, &case.secrets))?;
            match r {
                Ok((o, a, v, _)) => (o, a, v),
                Err(e) => return Err(Failure::new(format!("new_not_last_confidential failed: {}", e))),
            }
        }
        1 => {
            let abf = ct::abf_from(t, 1000);
            let vbf = ct::vbf_from(t, 1000);
            let eph = p.seckeys[t.below(p.seckeys.len())];
            let os = TxOutSecrets::new(sec.asset, abf, value, vbf);
            let r = guard::guard("with_txout_secrets", 0, || TxOut::with_txout_secrets(&mut rng, secp(), spk.clone(), receiver_pk, eph, os, &case.secrets))?;
            match r {
                Ok(o) => {
                    ensure!(o.nonce == Nonce::Confidential(PublicKey::from_secret_key(secp(), &eph)), "with_txout_secrets: nonce is not the ephemeral public key");
                    (o, abf, vbf)
                }
                Err(e) => return Err(Failure::new(format!("with_txout_secrets failed: {}", e))),
            }
        }
        _ => {
            let outs: Vec<TxOutSecrets> = Vec::new();
            let refs: Vec<&TxOutSecrets> = outs.iter().collect();
            let r = guard::guard("new_last_confidential", 0, || {
                TxOut::new_last_confidential(&mut rng, secp(), value, sec.asset, spk.clone(), receiver_pk, &case.secrets, &refs)
            })?;
            match r {
                Ok((o, a, v, _)) => (o, a, v),
                Err(e) => return Err(Failure::new(format!("new_last_confidential failed: {}", e))),
            }
        }
    };
    ctx.eval();
    let un = guard::guard("TxOut::unblind", 0, || out.unblind(secp(), receiver_sk))?;
    match un {
        Ok(s) => ensure!(s == TxOutSecrets::new(sec.asset, abf, value, vbf), "constructor {} output unblinds to {:?}", which, s),
        Err(e) => return Err(Failure::new(format!("constructor {} output cannot be unblinded: {}", which, e))),
    }
    ensure!(Asset::new_confidential(secp(), sec.asset, abf) == out.asset, "asset commitment is not new_confidential(asset, abf)");
    ensure!(Value::new_confidential_from_assetid(secp(), value, sec.asset, vbf, abf) == out.value, "value commitment is not new_confidential_from_assetid(value, asset, vbf, abf)");
    ensure!(out.script_pubkey == spk, "script changed");
    super::c01::roundtrip_value("TxOut(blinded)", &TxOut { witness: Default::default(), ..out.clone() }, None, &[], ctx)?;
    ctx.class(&format!("constructor:{}", ["new_not_last_confidential", "with_txout_secrets", "new_last_confidential"][which]));
    ctx.nontrivial(&(which, value, hex(&case.rng_seed)));
    Ok(())
}

pub fn property() -> Property {
    Property {
        id: "C04",
        rule: "blind: tape-generated balanced explicit transactions: 1..4 inputs over 1..3 assets, each spent output explicit \
               or confidential (real commitments from tape-chosen blinding factors), optional explicit issuance (+token) / \
               reissuance pseudo-inputs, per-asset totals split into 1..3 positive outputs (values 1..2^60 edge-biased), fee / \
               plain / to-blind outputs in tape order, >=1 marked with a receiver key, blinder RNG = ChaCha20(tape seed). \
               Oracle: blind() Ok; reported positions == marked positions; verify_tx_amt_proofs Ok; each marked output unblinds \
               with the receiver key to (asset, value, reported abf, vbf); factors reproduce both commitments; nonce == \
               pubkey(reported ephemeral key); unmarked outputs untouched; another key does not unblind; the result \
               round-trips through consensus encoding (C01). building_blocks: the three TxOut constructors directly. \
               Non-trivial: >=2 marked outputs, >=2 assets, an issuance, a confidential input, or last marked output not \
               last; distinct by the explicit transaction's encoding.",
        assumptions: &[
            "secp256k1-zkp (Pedersen commitments, range / surjection proofs, rewind) is the trusted base",
            "input secrets are passed in the order amount verification builds its surjection domain: input, its issuance, its token, next input",
        ],
        subs: vec![
            Sub { name: "blind", kind: Kind::Tape { max_len: 2500, quick: 3_000, thorough: 120_000, f: blind_and_check } },
            Sub { name: "building_blocks", kind: Kind::Tape { max_len: 2500, quick: 1_500, thorough: 40_000, f: building_blocks } },
        ],
        known: vec![],
    }
}
