//! C15 — taproot script trees commit every leaf and nothing else.
//!
//! Library under test: `elements::taproot` (builder, Huffman construction, control blocks) and
//! `elements::schnorr` (tap tweak of keys and key pairs). Oracle: `refimpl::taproot` (own tagged
//! hashes, sorted-pair branches, per-leaf paths, output key as `P_even + t*G` by point
//! addition, control-block bytes, DFS validity by recursive descent, optimal Huffman cost).
use std::collections::hash_map::DefaultHasher;
use std::collections::{BTreeMap, BTreeSet};
use std::hash::{Hash as _, Hasher as _};
use std::sync::OnceLock;

use elements::schnorr::{TapTweak, TweakedPublicKey};
use elements::secp256k1_zkp::{Keypair, Parity, PublicKey, SecretKey, XOnlyPublicKey};
use elements::taproot::{
    ControlBlock, LeafVersion, TapLeafHash, TapNodeHash, TapTweakHash, TaprootBuilder, TaprootSpendInfo,
};
use elements::{Address, AddressParams, Script};
use serde_json::json;

use crate::engine::*;
use crate::gen::{self, pool, secp};
use crate::refimpl::taproot::{self as rt, Node, H};
use crate::{ensure, ensure_eq};

type Key = (Vec<u8>, u8);

fn ref_ready() -> R {
    static S: OnceLock<Result<(), String>> = OnceLock::new();
    match S.get_or_init(rt::self_test) {
        Ok(()) => Ok(()),
        // a broken reference is a harness error, never a violation
        Err(e) => Err(Failure::panic(format!("taproot reference self-test failed: {}", e), "src/refimpl/taproot.rs".into())),
    }
}

// ---------------------------------------------------------------------------------------------
// generators
// ---------------------------------------------------------------------------------------------

fn gen_ver(t: &mut Tape) -> u8 {
    match t.below(4) {
        0 | 1 => 0xc4,
        2 => 0xc0,
        _ => {
            let v = t.u8() & 0xfe;
            if v == 0x50 {
                0x52
            } else {
                v
            }
        }
    }
}

fn gen_leaf_script(t: &mut Tape) -> Vec<u8> {
    match t.below(16) {
        0 => vec![0x51],
        1 => vec![],
        2..=8 => {
            let n = 1 + t.below(6);
            t.bytes(n)
        }
        9..=11 => {
            // <32-byte key> OP_CHECKSIG
            let mut v = vec![0x20];
            v.extend_from_slice(&t.arr32());
            v.push(0xac);
            v
        }
        12 | 13 => gen::gen_script(t, false).into_bytes(),
        14 => {
            let n = t.choose(&[252usize, 253, 254, 255, 256, 300, 520]);
            t.filler(n)
        }
        _ => {
            // rare: the 0x10000 compact-size boundary
            let n = if t.chance(24) { t.choose(&[65535usize, 65536]) } else { t.choose(&[75usize, 76, 77, 80]) };
            t.filler(n)
        }
    }
}

fn gen_leaf(t: &mut Tape) -> Node {
    let script = gen_leaf_script(t);
    let ver = gen_ver(t);
    Node::Leaf { script, ver }
}

/// internal key, with the key pair when the secret is known
fn gen_internal(t: &mut Tape) -> (XOnlyPublicKey, Option<Keypair>) {
    let p = pool();
    let from_sk = |sk: &SecretKey| {
        let kp = Keypair::from_secret_key(secp(), sk);
        (kp.x_only_public_key().0, Some(kp))
    };
    match t.below(5) {
        0 => {
            let i = t.below(p.seckeys.len());
            from_sk(&p.seckeys[i])
        }
        1 | 2 => {
            let b = t.arr32();
            match SecretKey::from_slice(&b) {
                Ok(sk) => from_sk(&sk),
                Err(_) => from_sk(&p.seckeys[1]),
            }
        }
        3 => {
            // x-only key without a known secret
            let b = t.arr32();
            match XOnlyPublicKey::from_slice(&b) {
                Ok(x) => (x, None),
                Err(_) => (p.pubkeys[2].x_only_public_key().0, None),
            }
        }
        _ => {
            // small / large secrets
            let mut b = [0u8; 32];
            b[31] = 1 + t.below(4) as u8;
            if t.bool() {
                // n - k
                let n: [u8; 32] = [
                    0xff, 0xff, 0xff, 0xff, 0xff, 0xff, 0xff, 0xff, 0xff, 0xff, 0xff, 0xff, 0xff, 0xff, 0xff, 0xfe, 0xba, 0xae,
                    0xdc, 0xe6, 0xaf, 0x48, 0xa0, 0x3b, 0xbf, 0xd2, 0x5e, 0x8c, 0xd0, 0x36, 0x41, 0x41,
                ];
                let k = b[31];
                b = n;
                b[31] -= k;
            }
            match SecretKey::from_slice(&b) {
                Ok(sk) => from_sk(&sk),
                Err(_) => from_sk(&p.seckeys[3]),
            }
        }
    }
}

/// random full binary tree with `n` leaves; leaf contents from `leaf`
fn gen_shape(t: &mut Tape, n: usize, leaf: &mut dyn FnMut(&mut Tape) -> Node) -> Node {
    if n <= 1 {
        return leaf(t);
    }
    let l = 1 + t.below(n - 1);
    let a = gen_shape(t, l, leaf);
    let b = gen_shape(t, n - l, leaf);
    Node::Branch(Box::new(a), Box::new(b))
}

/// replace random subtrees by hidden nodes; returns the tree the builder is told about and,
/// for hidden nodes whose hash is the real hash of the replaced subtree, that subtree (by DFS
/// item index in the new tree)
fn hide_subtrees(t: &mut Tape, n: &Node, chance: u32, item_idx: &mut usize, inner: &mut Vec<(usize, Node)>) -> Node {
    if t.chance(chance) {
        let idx = *item_idx;
        *item_idx += 1;
        if t.bool() {
            // a real subtree the builder does not get to see
            inner.push((idx, n.clone()));
            return Node::Hidden(rt::merkle_root(n));
        }
        return Node::Hidden(t.arr32());
    }
    match n {
        Node::Branch(l, r) => {
            let a = hide_subtrees(t, l, chance, item_idx, inner);
            let b = hide_subtrees(t, r, chance, item_idx, inner);
            Node::Branch(Box::new(a), Box::new(b))
        }
        other => {
            *item_idx += 1;
            other.clone()
        }
    }
}

// ---------------------------------------------------------------------------------------------
// library access (every call guarded)
// ---------------------------------------------------------------------------------------------

enum LItem {
    Leaf(Script, LeafVersion),
    Hidden(TapNodeHash),
}

fn lib_ver(v: u8) -> Result<LeafVersion, Failure> {
    match guard::guard("LeafVersion::from_u8", 1, || LeafVersion::from_u8(v))? {
        Ok(l) => Ok(l),
        Err(e) => Err(Failure::new(format!("LeafVersion::from_u8 refuses the even, non-annex version {:#x}: {:?}", v, e))),
    }
}

fn to_litems(items: &[(usize, Node)]) -> Result<Vec<(usize, LItem)>, Failure> {
    let mut out = Vec::with_capacity(items.len());
    for (d, n) in items {
        out.push((
            *d,
            match n {
                Node::Leaf { script, ver } => LItem::Leaf(Script::from(script.clone()), lib_ver(*ver)?),
                Node::Hidden(h) => LItem::Hidden(TapNodeHash::from_byte_array(*h)),
                Node::Branch(..) => {
                    return Err(Failure::panic("harness: branch in a DFS item list".into(), "src/props/c15.rs".into()))
                }
            },
        ));
    }
    Ok(out)
}

/// feed the builder item by item, then finalize; inner Err(stage) when the library refuses
fn lib_build(items: &[(usize, Node)], internal: &XOnlyPublicKey) -> Result<Result<TaprootSpendInfo, String>, Failure> {
    let litems = to_litems(items)?;
    let len: usize = items.iter().map(|(_, n)| if let Node::Leaf { script, .. } = n { script.len() + 40 } else { 40 }).sum();
    guard::guard("TaprootBuilder::{add_leaf, add_leaf_with_ver, add_hidden, finalize}", len, || {
        let mut b = TaprootBuilder::new();
        for (k, (d, it)) in litems.iter().enumerate() {
            let r = match it {
                LItem::Leaf(s, v) => {
                    if v.as_u8() == 0xc4 && k % 2 == 0 {
                        // default version path
                        b.add_leaf(*d, s.clone())
                    } else {
                        b.add_leaf_with_ver(*d, s.clone(), *v)
                    }
                }
                LItem::Hidden(h) => b.add_hidden(*d, *h),
            };
            match r {
                Ok(nb) => b = nb,
                Err(e) => return Err(format!("item {} at depth {}: {:?}", k, d, e)),
            }
        }
        b.finalize(secp(), *internal).map_err(|e| format!("finalize: {:?}", e))
    })
}

fn lib_verify(cb: &ControlBlock, out: &XOnlyPublicKey, script: &[u8]) -> Result<bool, Failure> {
    let s = Script::from(script.to_vec());
    let k = TweakedPublicKey::new(*out);
    guard::guard("ControlBlock::verify_taproot_commitment", script.len() + 4200, || cb.verify_taproot_commitment(secp(), &k, &s))
}

fn lib_parse_cb(bytes: &[u8]) -> Result<Option<ControlBlock>, Failure> {
    Ok(guard::guard("ControlBlock::from_slice", bytes.len(), || ControlBlock::from_slice(bytes))?.ok())
}

fn lib_control_block(info: &TaprootSpendInfo, key: &Key) -> Result<Option<ControlBlock>, Failure> {
    let k = (Script::from(key.0.clone()), lib_ver(key.1)?);
    guard::guard("TaprootSpendInfo::control_block", key.0.len(), || info.control_block(&k))
}

fn xonly_from(x: &H) -> Result<XOnlyPublicKey, Failure> {
    XOnlyPublicKey::from_slice(x)
        .map_err(|_| Failure::panic("harness: reference output key is not a curve point".into(), "src/props/c15.rs".into()))
}

// ---------------------------------------------------------------------------------------------
// negatives: a control block must not verify with anything but its own leaf / path / key
// ---------------------------------------------------------------------------------------------

const NEG_KINDS: usize = 10;
const NEG_NAMES: [&str; NEG_KINDS] = [
    "script-mutated",
    "script-of-other-leaf",
    "leaf-version",
    "path-element-changed",
    "path-element-dropped",
    "path-element-added",
    "path-adjacent-swapped",
    "parity-flipped",
    "other-output-key",
    "internal-key-as-output-key",
];

struct NegEnv<'a> {
    /// serialized genuine control block
    ser: &'a [u8],
    script: &'a [u8],
    out: XOnlyPublicKey,
    internal: XOnlyPublicKey,
    /// scripts of other leaves of the same tree
    others: &'a [Vec<u8>],
}

fn must_reject(bytes: &[u8], script: &[u8], out: &XOnlyPublicKey, what: &str, ctx: &mut Ctx) -> R {
    ctx.eval();
    match lib_parse_cb(bytes)? {
        None => {
            ctx.class(&format!("neg:{}:refused-by-from_slice", what));
            Ok(())
        }
        Some(cb) => {
            let v = lib_verify(&cb, out, script)?;
            ensure!(
                !v,
                "a control block verifies with {}: output_key={} script={} control_block={}",
                what,
                out,
                hex(&script[..script.len().min(80)]),
                hex(bytes)
            );
            ctx.class(&format!("neg:{}", what));
            Ok(())
        }
    }
}

/// run negative `kind`; Ok(false) when it is not applicable to this leaf
fn negative(kind: usize, e: &NegEnv, t: &mut Tape, ctx: &mut Ctx) -> Result<bool, Failure> {
    let depth = (e.ser.len() - 33) / 32;
    let what = NEG_NAMES[kind];
    match kind {
        0 => {
            let mut s = e.script.to_vec();
            match t.below(4) {
                0 => s.push(t.u8()),
                1 if !s.is_empty() => {
                    s.pop();
                }
                2 if !s.is_empty() => {
                    let i = t.below(s.len());
                    let bit = 1u8 << t.below(8);
                    s[i] ^= bit;
                }
                _ => s.insert(0, t.u8()),
            }
            must_reject(e.ser, &s, &e.out, what, ctx)?;
        }
        1 => {
            let cands: Vec<&Vec<u8>> = e.others.iter().filter(|o| o.as_slice() != e.script).collect();
            if cands.is_empty() {
                return Ok(false);
            }
            let o = cands[t.below(cands.len())];
            must_reject(e.ser, o, &e.out, what, ctx)?;
        }
        2 => {
            let mut b = e.ser.to_vec();
            let bit = 2u8 << t.below(7);
            b[0] ^= bit;
            must_reject(&b, e.script, &e.out, what, ctx)?;
        }
        3 => {
            if depth == 0 {
                return Ok(false);
            }
            let mut b = e.ser.to_vec();
            let pos = 33 + 32 * t.below(depth) + t.below(32);
            let bit = 1u8 << t.below(8);
            b[pos] ^= bit;
            must_reject(&b, e.script, &e.out, what, ctx)?;
        }
        4 => {
            if depth == 0 {
                return Ok(false);
            }
            let i = match t.below(3) {
                0 => depth - 1,
                1 => 0,
                _ => t.below(depth),
            };
            let mut b = e.ser.to_vec();
            b.drain(33 + 32 * i..33 + 32 * (i + 1));
            must_reject(&b, e.script, &e.out, what, ctx)?;
        }
        5 => {
            let mut b = e.ser.to_vec();
            let extra: Vec<u8> = if depth > 0 && t.bool() {
                // repeat an existing element
                let i = t.below(depth);
                b[33 + 32 * i..33 + 32 * (i + 1)].to_vec()
            } else {
                t.arr32().to_vec()
            };
            let at = match t.below(3) {
                0 => depth,
                1 => 0,
                _ => t.below(depth + 1),
            };
            let tail = b.split_off(33 + 32 * at);
            b.extend_from_slice(&extra);
            b.extend_from_slice(&tail);
            must_reject(&b, e.script, &e.out, what, ctx)?;
        }
        6 => {
            if depth < 2 {
                return Ok(false);
            }
            let i = t.below(depth - 1);
            let mut b = e.ser.to_vec();
            let (x, y) = (33 + 32 * i, 33 + 32 * (i + 1));
            if b[x..x + 32] == b[y..y + 32] {
                return Ok(false);
            }
            for k in 0..32 {
                b.swap(x + k, y + k);
            }
            must_reject(&b, e.script, &e.out, what, ctx)?;
        }
        7 => {
            let mut b = e.ser.to_vec();
            b[0] ^= 1;
            must_reject(&b, e.script, &e.out, what, ctx)?;
        }
        8 => {
            let p = pool();
            let other = match t.below(3) {
                0 => p.pubkeys[t.below(p.pubkeys.len())].x_only_public_key().0,
                1 => {
                    // the key-spend-only output key of the same internal key
                    match rt::output_key(&e.internal.serialize(), None) {
                        Some(k) => xonly_from(&k.x)?,
                        None => return Ok(false),
                    }
                }
                _ => {
                    let mut x = e.out.serialize();
                    let (i, bit) = (t.below(32), 1u8 << t.below(8));
                    x[i] ^= bit;
                    match XOnlyPublicKey::from_slice(&x) {
                        Ok(k) => k,
                        Err(_) => p.pubkeys[5].x_only_public_key().0,
                    }
                }
            };
            if other == e.out {
                return Ok(false);
            }
            must_reject(e.ser, e.script, &other, what, ctx)?;
        }
        _ => {
            if e.internal == e.out {
                return Ok(false);
            }
            must_reject(e.ser, e.script, &e.internal, what, ctx)?;
        }
    }
    Ok(true)
}

// ---------------------------------------------------------------------------------------------
// the core comparison of a built TaprootSpendInfo with the reference tree
// ---------------------------------------------------------------------------------------------

struct Plan {
    /// keys (distinct script+version) that get every kind of negative; the rest get `few`
    full_neg_keys: usize,
    few: usize,
    /// at most this many keys are examined at all (sampled by the tape beyond)
    max_keys: usize,
}

fn struct_sig(items: &[rt::Item], dup_keys: usize) -> u64 {
    let mut h = DefaultHasher::new();
    for it in items {
        it.depth.hash(&mut h);
        matches!(it.node, Node::Hidden(_)).hash(&mut h);
    }
    dup_keys.hash(&mut h);
    h.finish()
}

fn check_info(
    label: &str,
    tree: &Node,
    inner: &[(usize, Node)],
    info: &TaprootSpendInfo,
    internal: &XOnlyPublicKey,
    plan: &Plan,
    t: &mut Tape,
    ctx: &mut Ctx,
) -> R {
    let xo: H = internal.serialize();
    let (root, items) = rt::analyze(tree);
    let Some(ok) = rt::output_key(&xo, Some(&root)) else {
        // tweak >= group order or zero sum: probability 2^-128
        ctx.exclude();
        return Ok(());
    };
    let out_ref = xonly_from(&ok.x)?;

    // --- output key, parity, merkle root, internal key, tweak hash
    let (l_root, l_out, l_par, l_int, l_tw, l_tw2) = guard::guard("TaprootSpendInfo accessors", 0, || {
        (
            info.merkle_root().map(|r| r.to_byte_array()),
            info.output_key().into_inner().serialize(),
            info.output_key_parity(),
            info.internal_key().serialize(),
            info.tap_tweak().to_byte_array(),
            TapTweakHash::from_key_and_tweak(*internal, Some(TapNodeHash::from_byte_array(root))).to_byte_array(),
        )
    })?;
    ctx.evals_n(4);
    ensure_eq!(l_root.map(|r| hex(&r)), Some(hex(&root)), "{}: merkle root differs from the reference (sorted-pair TapBranch/elements tree)", label);
    ensure_eq!(hex(&l_int), hex(&xo), "{}: internal key changed", label);
    let want_tw = rt::tweak(&xo, Some(&root));
    ensure_eq!(hex(&l_tw), hex(&want_tw), "{}: tap_tweak() differs from tagged(TapTweak/elements, internal || root)", label);
    ensure_eq!(hex(&l_tw2), hex(&want_tw), "{}: TapTweakHash::from_key_and_tweak differs from the reference", label);
    ensure_eq!(hex(&l_out), hex(&ok.x), "{}: output key differs from lift_x(internal) + tweak*G (internal={}, root={})", label, hex(&xo), hex(&root));
    ensure_eq!(l_par == Parity::Odd, ok.odd, "{}: output key parity differs from the reference (internal={}, root={})", label, hex(&xo), hex(&root));

    // --- the P2TR output script / address of this tree: OP_1 <32-byte reference output key>
    check_p2tr(label, internal, Some(root), &ok.x, Some(info), ctx)?;

    // --- the script map holds exactly the visible leaves with exactly their paths
    let mut ref_map: BTreeMap<Key, BTreeSet<Vec<u8>>> = BTreeMap::new();
    let mut by_key: BTreeMap<Key, Vec<&rt::Item>> = BTreeMap::new();
    let mut hidden = 0usize;
    for it in &items {
        match &it.node {
            Node::Leaf { script, ver } => {
                let k = (script.clone(), *ver);
                ref_map.entry(k.clone()).or_default().insert(it.path.concat());
                by_key.entry(k).or_default().push(it);
            }
            _ => hidden += 1,
        }
    }
    let lib_map: BTreeMap<Key, BTreeSet<Vec<u8>>> = guard::guard("TaprootSpendInfo::as_script_map", 0, || {
        info.as_script_map()
            .iter()
            .map(|((s, v), set)| ((s.to_bytes(), v.as_u8()), set.iter().map(|b| b.serialize()).collect()))
            .collect()
    })?;
    ctx.eval();
    if lib_map != ref_map {
        let show = |m: &BTreeMap<Key, BTreeSet<Vec<u8>>>, k: &Key| -> String {
            match m.get(k) {
                None => "absent".into(),
                Some(set) => format!("{:?}", set.iter().map(|p| p.chunks(32).map(|c| hex(&c[..4.min(c.len())])).collect::<Vec<_>>().join(",")).collect::<Vec<_>>()),
            }
        };
        let all: BTreeSet<&Key> = lib_map.keys().chain(ref_map.keys()).collect();
        let diff: Vec<String> = all
            .iter()
            .filter(|k| lib_map.get(**k) != ref_map.get(**k))
            .take(3)
            .map(|k| format!("script {} version {:#x}: library paths {} reference paths {}", hex(&k.0[..k.0.len().min(16)]), k.1, show(&lib_map, k), show(&ref_map, k)))
            .collect();
        return Err(Failure::new(format!(
            "{}: script map is not exactly the visible leaves with their sibling paths (paths as 4-byte prefixes of each element, leaf to root); {} entries in the library, {} in the reference; differing: {}",
            label,
            lib_map.len(),
            ref_map.len(),
            diff.join("; ")
        )));
    }
    let dup_keys = by_key.values().filter(|v| v.len() > 1).count();
    let leaves = items.len() - hidden;
    let sig = struct_sig(&items, dup_keys);
    ctx.class(match leaves {
        0 => "tree:0-visible-leaves",
        1 => "tree:1-leaf",
        2 => "tree:2-leaves",
        3..=7 => "tree:3-7-leaves",
        8..=40 => "tree:8-40-leaves",
        _ => "tree:>40-leaves",
    });
    if hidden > 0 {
        ctx.class("tree:with-hidden-node");
    }
    if dup_keys > 0 {
        ctx.class("tree:with-duplicate-leaf");
    }
    if leaves >= 3 || hidden > 0 || dup_keys > 0 {
        ctx.nontrivial(&(label, sig));
    }

    // --- per key: the control block
    let keys: Vec<&Key> = by_key.keys().collect();
    let all_scripts: Vec<Vec<u8>> = keys.iter().map(|k| k.0.clone()).collect();
    let chosen: Vec<usize> = if keys.len() <= plan.max_keys {
        (0..keys.len()).collect()
    } else {
        // deepest and shallowest leaf always, the rest sampled
        let deepest = (0..keys.len()).max_by_key(|i| by_key[keys[*i]].iter().map(|l| l.depth).max().unwrap_or(0)).unwrap_or(0);
        let shallow = (0..keys.len()).min_by_key(|i| by_key[keys[*i]].iter().map(|l| l.depth).min().unwrap_or(0)).unwrap_or(0);
        let mut v = vec![deepest, shallow];
        for _ in 2..plan.max_keys {
            v.push(t.below(keys.len()));
        }
        v
    };
    for (n_done, ki) in chosen.iter().enumerate() {
        let key = keys[*ki];
        let occ = &by_key[key];
        let dmin = occ.iter().map(|l| l.depth).min().unwrap_or(0);
        let (script, ver) = (&key.0, key.1);
        // leaf hash
        let lh = {
            let s = Script::from(script.clone());
            let v = lib_ver(ver)?;
            guard::guard("TapLeafHash::from_script", script.len(), || TapLeafHash::from_script(&s, v).to_byte_array())?
        };
        ensure_eq!(hex(&lh), hex(&rt::leaf_hash(ver, script)), "{}: TapLeafHash::from_script differs from tagged(TapLeaf/elements, ver || compact_size || script), version {:#x}, script of {} bytes", label, ver, script.len());
        let Some(cb) = lib_control_block(info, key)? else {
            return Err(Failure::new(format!("{}: no control block for the leaf (script {}, version {:#x}) at depth {}", label, hex(&script[..script.len().min(40)]), ver, dmin)));
        };
        let (ser, size) = guard::guard("ControlBlock::{serialize,size}", 0, || (cb.serialize(), cb.size()))?;
        ctx.evals_n(5);
        ensure_eq!(size, 33 + 32 * dmin, "{}: ControlBlock::size for a leaf whose shallowest occurrence is at depth {}", label, dmin);
        ensure_eq!(ser.len(), 33 + 32 * dmin, "{}: serialized control block length for a leaf whose shallowest occurrence is at depth {}", label, dmin);
        let wants: Vec<Vec<u8>> =
            occ.iter().filter(|l| l.depth == dmin).map(|l| rt::control_block_bytes(ver, ok.odd, &xo, &l.path)).collect();
        ensure!(
            wants.contains(&ser),
            "{}: control block bytes differ from the reference [version|parity] || internal || siblings leaf-to-root: library {} reference {}",
            label,
            hex(&ser),
            hex(&wants[0])
        );
        match lib_parse_cb(&ser)? {
            Some(back) => ensure!(back == cb, "{}: ControlBlock::from_slice(serialize()) is a different control block: {:?} vs {:?}", label, back, cb),
            None => return Err(Failure::new(format!("{}: ControlBlock::from_slice refuses the serialized control block {}", label, hex(&ser)))),
        }
        ensure!(
            lib_verify(&cb, &out_ref, script)?,
            "{}: the control block of a leaf at depth {} does not verify against the output key {} (script {}, version {:#x}, control block {})",
            label,
            dmin,
            hex(&ok.x),
            hex(&script[..script.len().min(40)]),
            ver,
            hex(&ser)
        );
        // every occurrence (any depth) is committed: its reference-built proof verifies
        if occ.len() > 1 {
            for l in occ.iter() {
                let b = rt::control_block_bytes(ver, ok.odd, &xo, &l.path);
                ctx.eval();
                match lib_parse_cb(&b)? {
                    Some(c) => ensure!(lib_verify(&c, &out_ref, script)?, "{}: the proof of a duplicate leaf at depth {} does not verify: {}", label, l.depth, hex(&b)),
                    None => return Err(Failure::new(format!("{}: from_slice refuses the proof of a duplicate leaf at depth {}", label, l.depth))),
                }
            }
            ctx.class(if occ.iter().any(|l| l.depth != dmin) { "duplicate:different-depths:shortest-returned" } else { "duplicate:same-depth" });
        }
        // negatives
        let env = NegEnv { ser: &ser, script, out: out_ref, internal: *internal, others: &all_scripts };
        let kinds: Vec<usize> = if n_done < plan.full_neg_keys {
            (0..NEG_KINDS).collect()
        } else {
            (0..plan.few).map(|_| t.below(NEG_KINDS)).collect()
        };
        for k in kinds {
            if negative(k, &env, t, ctx)? {
                ctx.nontrivial(&(label, sig, *ki, k));
            }
        }
    }

    // --- leaves below a hidden node: no control block, yet really committed
    for (idx, sub) in inner {
        let Some(hid) = items.get(*idx) else { continue };
        let (sub_root, sub_items) = rt::analyze(sub);
        if sub_root != hid.hash || !matches!(hid.node, Node::Hidden(_)) {
            return Err(Failure::panic("harness: hidden-subtree bookkeeping".into(), "src/props/c15.rs".into()));
        }
        for (n, li) in sub_items.iter().enumerate() {
            if n >= 4 {
                break;
            }
            let Node::Leaf { script, ver } = &li.node else { continue };
            let key = (script.clone(), *ver);
            ctx.eval();
            if !ref_map.contains_key(&key) {
                let got = lib_control_block(info, &key)?;
                ensure!(got.is_none(), "{}: a control block is produced for a script that is only below a hidden node: {:?}", label, got);
                ctx.class("hidden:leaf-below-has-no-control-block");
            }
            let mut path = li.path.clone();
            path.extend_from_slice(&hid.path);
            if path.len() <= rt::MAX_DEPTH {
                let b = rt::control_block_bytes(*ver, ok.odd, &xo, &path);
                match lib_parse_cb(&b)? {
                    Some(c) => ensure!(lib_verify(&c, &out_ref, script)?, "{}: the externally built proof of a leaf below a hidden node does not verify (the hidden hash is not part of the merkle root?)", label),
                    None => return Err(Failure::new(format!("{}: from_slice refuses an external proof of {} elements", label, path.len()))),
                }
                ctx.class("hidden:external-proof-verifies");
            }
        }
    }
    // --- a script that is nowhere in the tree
    let mut absent = t.bytes(3);
    absent.extend_from_slice(b"\xfaabsent");
    let akey = (absent, 0xc4u8);
    if !ref_map.contains_key(&akey) {
        ctx.eval();
        ensure!(lib_control_block(info, &akey)?.is_none(), "{}: a control block is produced for a script that is not in the tree", label);
    }
    if ctx.wants_sample(label) && (items.len() >= 3 || label.starts_with("sequence")) {
        let mut depths: Vec<String> = items.iter().map(|i| format!("{}{}", if matches!(i.node, Node::Hidden(_)) { "h" } else { "" }, i.depth)).collect();
        if depths.len() > 48 {
            let n = depths.len();
            let tail = depths.split_off(n - 6);
            depths.truncate(12);
            depths.push(format!("...({} more)...", n - 18));
            depths.extend(tail);
        }
        ctx.sample(label, || json!({"dfs_items": items.len(), "dfs_depths(h=hidden)": depths.join(" "), "internal_key": hex(&xo), "merkle_root": hex(&root),
            "output_key": hex(&ok.x), "output_key_odd": ok.odd, "distinct_leaves": keys.len(), "duplicate_keys": dup_keys,
            "leaves_examined": chosen.len()}));
    }
    Ok(())
}

/// `Script::new_v1_p2tr`, `Script::new_v1_p2tr_tweaked`, `Address::p2tr(..).script_pubkey()` and `Address::p2tr_tweaked`
/// against `51 20 || x(reference output key)`
fn check_p2tr(label: &str, internal: &XOnlyPublicKey, root: Option<H>, want_x: &H, info: Option<&TaprootSpendInfo>, ctx: &mut Ctx) -> R {
    let mr = root.map(TapNodeHash::from_byte_array);
    let mut want = vec![0x51u8, 0x20];
    want.extend_from_slice(want_x);
    let (spk, addr_spk, tweaked) = guard::guard("Script::new_v1_p2tr / Address::p2tr", 0, || {
        let spk = Script::new_v1_p2tr(secp(), *internal, mr).to_bytes();
        let addr_spk = Address::p2tr(secp(), *internal, mr, None, &AddressParams::ELEMENTS).script_pubkey().to_bytes();
        let tweaked = info.map(|i| (Script::new_v1_p2tr_tweaked(i.output_key()).to_bytes(), Address::p2tr_tweaked(i.output_key(), None, &AddressParams::LIQUID).script_pubkey().to_bytes()));
        (spk, addr_spk, tweaked)
    })?;
    ctx.evals_n(2);
    let what = if root.is_some() { "internal key and merkle root" } else { "internal key without a tree" };
    ensure_eq!(hex(&spk), hex(&want), "{}: Script::new_v1_p2tr({}) is not OP_1 <x of lift_x(internal) + tweak*G> (internal {}, root {:?})", label, what, hex(&internal.serialize()), root.map(|r| hex(&r)));
    ensure_eq!(hex(&addr_spk), hex(&want), "{}: Address::p2tr({}).script_pubkey() is not OP_1 <reference output key> (internal {}, root {:?})", label, what, hex(&internal.serialize()), root.map(|r| hex(&r)));
    if let Some((a, b)) = tweaked {
        ctx.evals_n(2);
        ensure_eq!(hex(&a), hex(&want), "{}: Script::new_v1_p2tr_tweaked(output_key()) is not OP_1 <reference output key>", label);
        ensure_eq!(hex(&b), hex(&want), "{}: Address::p2tr_tweaked(output_key()).script_pubkey() is not OP_1 <reference output key>", label);
    }
    ctx.class(if root.is_some() { "p2tr-script:with-root" } else { "p2tr-script:key-only" });
    Ok(())
}

/// build through the library; the tree is valid, so refusal is a failure
fn build_valid_and_check(
    label: &str,
    tree: &Node,
    inner: &[(usize, Node)],
    internal: &XOnlyPublicKey,
    plan: &Plan,
    t: &mut Tape,
    ctx: &mut Ctx,
) -> R {
    let items = rt::dfs_items(tree);
    ctx.eval();
    match lib_build(&items, internal)? {
        Ok(info) => check_info(label, tree, inner, &info, internal, plan, t, ctx),
        Err(_) if !items.iter().any(|(_, n)| matches!(n, Node::Leaf { .. })) => {
            // a tree of hidden nodes only has no leaf to commit to; acceptance is not demanded
            ctx.class("tree:all-hidden:refused");
            Ok(())
        }
        Err(stage) => Err(Failure::new(format!(
            "{}: a complete tree given in DFS order is refused ({}); DFS depths {:?}",
            label,
            stage,
            items.iter().map(|(d, _)| *d).collect::<Vec<_>>()
        ))),
    }
}

// ---------------------------------------------------------------------------------------------
// 1. every shape with 1..=7 (thorough: 1..=9) leaves
// ---------------------------------------------------------------------------------------------

fn all_shapes(max_leaves: usize) -> Vec<rt::Shape> {
    (1..=max_leaves).flat_map(rt::shapes).collect()
}
fn shapes_quick() -> &'static Vec<rt::Shape> {
    static S: OnceLock<Vec<rt::Shape>> = OnceLock::new();
    S.get_or_init(|| all_shapes(7))
}
fn shapes_thorough() -> &'static Vec<rt::Shape> {
    static S: OnceLock<Vec<rt::Shape>> = OnceLock::new();
    S.get_or_init(|| all_shapes(9))
}
const SHAPE_VARIANTS_QUICK: u64 = 2;
const SHAPE_VARIANTS_THOROUGH: u64 = 6;

fn shapes_exhaustive(idx: u64, seed: u64, ctx: &mut Ctx) -> R {
    ref_ready()?;
    let (shapes, variants) = match ctx.tier {
        Tier::Quick => (shapes_quick(), SHAPE_VARIANTS_QUICK),
        Tier::Thorough => (shapes_thorough(), SHAPE_VARIANTS_THOROUGH),
    };
    let shape = &shapes[(idx / variants) as usize % shapes.len()];
    let variant = idx % variants;
    let bytes = seeded_bytes(seed, idx, 4096);
    let mut t = Tape::new(&bytes);
    let (internal, _) = gen_internal(&mut t);
    let mut k = 0u8;
    let tree = shape.fill(&mut || {
        k += 1;
        if variant == 0 {
            // plain: distinct one-byte scripts, default version
            Node::Leaf { script: vec![0x50 + k], ver: 0xc4 }
        } else {
            let mut script = gen_leaf_script(&mut t);
            if script.len() > 600 {
                script.truncate(600);
            }
            // distinct by construction in this family
            script.push(k);
            Node::Leaf { script, ver: gen_ver(&mut t) }
        }
    });
    let plan = Plan { full_neg_keys: usize::MAX, few: 0, max_keys: usize::MAX };
    ctx.class(&format!("shape:{}-leaves", shape.leaves()));
    build_valid_and_check("shapes", &tree, &[], &internal, &plan, &mut t, ctx)
}

// ---------------------------------------------------------------------------------------------
// 2. every depth sequence (with every hidden mask) of bounded length: accepted iff valid
// ---------------------------------------------------------------------------------------------

fn seq_params(tier: Tier) -> (usize, usize) {
    // (max length, max depth)
    tier.pick((5, 5), (6, 6))
}
fn seq_count(tier: Tier) -> u64 {
    let (l, d) = seq_params(tier);
    let base = 2 * (d as u64 + 1);
    (1..=l as u32).map(|k| base.pow(k)).sum()
}

fn depth_sequences_exhaustive(idx: u64, seed: u64, ctx: &mut Ctx) -> R {
    ref_ready()?;
    let (maxlen, maxd) = seq_params(ctx.tier);
    let base = 2 * (maxd as u64 + 1);
    let mut rest = idx;
    let mut len = 1u32;
    while len < maxlen as u32 && rest >= base.pow(len) {
        rest -= base.pow(len);
        len += 1;
    }
    let bytes = seeded_bytes(seed, idx, 1024);
    let mut t = Tape::new(&bytes);
    let mut items: Vec<(usize, Node)> = Vec::new();
    for i in 0..len {
        let digit = rest % base;
        rest /= base;
        let depth = (digit / 2) as usize;
        let node = if digit % 2 == 1 {
            Node::Hidden(t.arr32())
        } else {
            Node::Leaf { script: vec![0x51 + i as u8], ver: if t.bool() { 0xc4 } else { gen_ver(&mut t) } }
        };
        items.push((depth, node));
    }
    let visible = items.iter().filter(|(_, n)| matches!(n, Node::Leaf { .. })).count();
    let (internal, _) = gen_internal(&mut t);
    let want = rt::tree_from_dfs(&items);
    let got = lib_build(&items, &internal)?;
    ctx.eval();
    let depths: Vec<String> = items.iter().map(|(d, n)| format!("{}{}", if matches!(n, Node::Hidden(_)) { "h" } else { "" }, d)).collect();
    match (&want, &got) {
        (None, Err(_)) => {
            ctx.class("sequence:invalid:refused");
            if items.len() >= 3 || visible < items.len() {
                ctx.nontrivial(&("seq", idx));
            }
            if ctx.wants_sample("sequence:invalid") {
                let stage = got.as_ref().err().cloned().unwrap_or_default();
                ctx.sample("sequence:invalid", || json!({"depths(h=hidden)": depths.join(" "), "refused_at": stage}));
            }
            Ok(())
        }
        (None, Ok(_)) => Err(Failure::new(format!(
            "the builder finalizes the depth sequence [{}] which is not the DFS leaf sequence of any complete binary tree",
            depths.join(" ")
        ))),
        (Some(_), Err(stage)) => {
            if visible == 0 {
                // a tree of hidden nodes only has no leaf to commit to; acceptance is not demanded
                ctx.class("sequence:valid:all-hidden:refused");
                return Ok(());
            }
            Err(Failure::new(format!("the builder refuses the valid DFS depth sequence [{}] ({})", depths.join(" "), stage)))
        }
        (Some(tree), Ok(info)) => {
            ctx.class("sequence:valid:accepted");
            let plan = Plan { full_neg_keys: usize::MAX, few: 0, max_keys: usize::MAX };
            check_info("sequence:valid", tree, &[], info, &internal, &plan, &mut t, ctx)
        }
    }
}

// ---------------------------------------------------------------------------------------------
// 3. random trees: duplicates, hidden subtrees, mutated histories, deep chains, key pairs
// ---------------------------------------------------------------------------------------------

fn check_keypair(kp: &Keypair, root: Option<H>, ctx: &mut Ctx) -> R {
    let x = kp.x_only_public_key().0;
    let xo = x.serialize();
    let Some(ok) = rt::output_key(&xo, root.as_ref()) else {
        ctx.exclude();
        return Ok(());
    };
    let mr = root.map(TapNodeHash::from_byte_array);
    let (tweaked, parts, pub_tw) = guard::guard("Keypair::tap_tweak / XOnlyPublicKey::tap_tweak", 0, || {
        let tk = (*kp).tap_tweak(secp(), mr);
        let parts = tk.public_parts();
        (tk.to_inner(), (parts.0.into_inner().serialize(), parts.1), x.tap_tweak(secp(), mr))
    })?;
    ctx.evals_n(3);
    // the tweaked secret generates exactly the output key
    let sk = tweaked.secret_key();
    let regenerated = PublicKey::from_secret_key(secp(), &sk).serialize();
    ensure_eq!(hex(&regenerated), hex(&ok.full), "the secret key of the tweaked key pair does not generate the output key (internal {}, merkle root {:?})", hex(&xo), root.map(|r| hex(&r)));
    ensure_eq!(hex(&tweaked.public_key().serialize()), hex(&ok.full), "the public key of the tweaked key pair is not the output key (internal {})", hex(&xo));
    ensure_eq!(hex(&parts.0), hex(&ok.x), "TweakedKeypair::public_parts key");
    ensure_eq!(parts.1 == Parity::Odd, ok.odd, "TweakedKeypair::public_parts parity");
    ensure_eq!(hex(&pub_tw.0.into_inner().serialize()), hex(&ok.x), "XOnlyPublicKey::tap_tweak differs from lift_x(P) + t*G (internal {}, merkle root {:?})", hex(&xo), root.map(|r| hex(&r)));
    ensure_eq!(pub_tw.1 == Parity::Odd, ok.odd, "XOnlyPublicKey::tap_tweak parity (internal {}, merkle root {:?})", hex(&xo), root.map(|r| hex(&r)));
    ctx.class(if root.is_some() { "keypair:tweak-with-root" } else { "keypair:tweak-without-root" });
    Ok(())
}

fn check_key_spend(internal: &XOnlyPublicKey, root: Option<H>, t: &mut Tape, ctx: &mut Ctx) -> R {
    let xo = internal.serialize();
    let Some(ok) = rt::output_key(&xo, root.as_ref()) else {
        ctx.exclude();
        return Ok(());
    };
    let mr = root.map(TapNodeHash::from_byte_array);
    let info = guard::guard("TaprootSpendInfo::new_key_spend", 0, || TaprootSpendInfo::new_key_spend(secp(), *internal, mr))?;
    let (l_out, l_par, l_root, n_map) = guard::guard("TaprootSpendInfo accessors", 0, || {
        (info.output_key().into_inner().serialize(), info.output_key_parity(), info.merkle_root().map(|r| r.to_byte_array()), info.as_script_map().len())
    })?;
    ctx.evals_n(2);
    ensure_eq!(hex(&l_out), hex(&ok.x), "new_key_spend output key differs from lift_x(P) + tagged(TapTweak/elements, P{})*G for internal {}", if root.is_some() { " || root" } else { "" }, hex(&xo));
    ensure_eq!(l_par == Parity::Odd, ok.odd, "new_key_spend parity for internal {}", hex(&xo));
    ensure_eq!(l_root, root, "new_key_spend merkle root");
    ensure_eq!(n_map, 0, "new_key_spend has scripts");
    check_p2tr("key-spend", internal, root, &ok.x, Some(&info), ctx)?;
    let key = (gen_leaf_script(t), 0xc4u8);
    ensure!(lib_control_block(&info, &key)?.is_none(), "a key-spend-only output produces a control block");
    ctx.class(if root.is_some() { "key-spend:given-root" } else { "key-spend:no-tree" });
    Ok(())
}

fn chain_tree(t: &mut Tape, depth: usize) -> Node {
    let orient = t.below(3);
    let leaf = |i: usize| Node::Leaf { script: vec![0x51, (i & 0xff) as u8, (i >> 8) as u8], ver: 0xc4 };
    let mut node = leaf(0);
    for d in (1..=depth).rev() {
        let sib = leaf(d);
        let left_leaf = match orient {
            0 => true,
            1 => false,
            _ => t.bool(),
        };
        node = if left_leaf { Node::Branch(Box::new(sib), Box::new(node)) } else { Node::Branch(Box::new(node), Box::new(sib)) };
    }
    node
}

/// a chain like `chain_tree` with a given node at the bottom (depth `depth`) and, optionally, the sibling leaf of
/// one level replaced
fn chain_tree_ext(t: &mut Tape, depth: usize, bottom: Node, replace_sib: Option<(usize, Node)>) -> Node {
    let orient = t.below(3);
    let leaf = |i: usize| Node::Leaf { script: vec![0x51, (i & 0xff) as u8, (i >> 8) as u8], ver: 0xc4 };
    let mut node = bottom;
    for d in (1..=depth).rev() {
        let sib = match &replace_sib {
            Some((lvl, n)) if *lvl == d => n.clone(),
            _ => leaf(d),
        };
        let left_leaf = match orient {
            0 => true,
            1 => false,
            _ => t.bool(),
        };
        node = if left_leaf { Node::Branch(Box::new(sib), Box::new(node)) } else { Node::Branch(Box::new(node), Box::new(sib)) };
    }
    node
}

/// Chains to depth 126..=129 whose deepest nodes are *hidden*: a hidden node has no merkle branch that could overflow,
/// so the depth check of `insert` is the only thing that refuses one at depth 129 or 130; one at depth 128 (and its
/// externally built 128-element proof) must be accepted.
fn deep_hidden(t: &mut Tape, internal: &XOnlyPublicKey, kp: Option<Keypair>, ctx: &mut Ctx) -> R {
    let depth = t.choose(&[128usize, 127, 128, 129, 126, 128]);
    // (the two variants in which only hidden nodes go below the bottom leaves get double weight)
    let variant = match t.below(8) {
        6 => 2,
        7 => 5,
        v => v,
    };
    // hidden node standing for `real` (then the proof of `real` is built outside), or for nothing known
    let mut real_subtrees: Vec<Node> = Vec::new();
    let mut hide = |t: &mut Tape, real: Node| -> Node {
        if t.bool() {
            let h = rt::merkle_root(&real);
            real_subtrees.push(real);
            Node::Hidden(h)
        } else {
            Node::Hidden(t.arr32())
        }
    };
    let xleaf = |i: usize| Node::Leaf { script: vec![0x52, (i & 0xff) as u8, (i >> 8) as u8, 0x87], ver: 0xc4 };
    let (bottom, replace_sib, vname): (Node, Option<(usize, Node)>, &str) = match variant {
        0 => (hide(t, xleaf(1)), None, "bottom-node-hidden"),
        1 => {
            let a = hide(t, xleaf(1));
            let b = hide(t, xleaf(2));
            (a, Some((depth, b)), "bottom-pair-hidden")
        }
        2 => {
            let a = hide(t, xleaf(1));
            let b = hide(t, xleaf(2));
            (Node::Branch(Box::new(a), Box::new(b)), None, "hidden-pair-one-below-bottom")
        }
        3 => {
            let a = hide(t, xleaf(1));
            let pair = if t.bool() { Node::Branch(Box::new(a), Box::new(xleaf(2))) } else { Node::Branch(Box::new(xleaf(2)), Box::new(a)) };
            (pair, None, "hidden+leaf-one-below-bottom")
        }
        4 => {
            let lvl = t.choose(&[depth, depth - 1, 1]);
            let h = hide(t, xleaf(3));
            (xleaf(0), Some((lvl, h)), "sibling-hidden")
        }
        _ => {
            let lvl = t.choose(&[depth, depth - 1]);
            let a = hide(t, xleaf(1));
            let b = hide(t, xleaf(2));
            (xleaf(0), Some((lvl, Node::Branch(Box::new(a), Box::new(b)))), "sibling-replaced-by-hidden-pair")
        }
    };
    let tree = chain_tree_ext(t, depth, bottom, replace_sib);
    let items = rt::dfs_items(&tree);
    let max_depth = items.iter().map(|(d, _)| *d).max().unwrap_or(0);
    let deepest_hidden = items.iter().filter(|(_, n)| matches!(n, Node::Hidden(_))).map(|(d, _)| *d).max().unwrap_or(0);
    let deepest_leaf = items.iter().filter(|(_, n)| matches!(n, Node::Leaf { .. })).map(|(d, _)| *d).max().unwrap_or(0);
    let want = rt::tree_from_dfs(&items);
    ctx.eval();
    if want.is_none() {
        let got = lib_build(&items, internal)?;
        ensure!(
            got.is_err(),
            "a tree with a node at depth {} (limit {}) is finalized: chain to depth {}, {} - deepest hidden node at depth {}, deepest leaf at depth {}",
            max_depth,
            rt::MAX_DEPTH,
            depth,
            vname,
            deepest_hidden,
            deepest_leaf
        );
        ctx.class(&format!("deep-hidden:refused:deepest-hidden={}:deepest-leaf={}", deepest_hidden, if deepest_leaf > rt::MAX_DEPTH { ">128" } else { "<=128" }));
        ctx.nontrivial(&("deep-hidden", depth, variant, max_depth));
        if ctx.wants_sample("deep-hidden:refused") {
            let stage = got.err().unwrap_or_default();
            ctx.sample("deep-hidden:refused", || json!({"chain_depth": depth, "variant": vname, "deepest_hidden": deepest_hidden, "deepest_leaf": deepest_leaf, "refused_at": stage}));
        }
        return Ok(());
    }
    // valid: every node at depth <= 128. Hidden nodes with a known subtree get their external proof checked.
    let mut inner: Vec<(usize, Node)> = Vec::new();
    for sub in &real_subtrees {
        let h = rt::merkle_root(sub);
        if let Some(idx) = items.iter().position(|(_, n)| matches!(n, Node::Hidden(x) if *x == h)) {
            inner.push((idx, sub.clone()));
        }
    }
    ctx.class(&format!("deep-hidden:accepted:deepest-hidden={}", deepest_hidden));
    let plan = Plan { full_neg_keys: 2, few: 2, max_keys: 6 };
    build_valid_and_check("deep-hidden", &tree, &inner, internal, &plan, t, ctx)?;
    if let Some(kp) = kp {
        check_keypair(&kp, Some(rt::merkle_root(&tree)), ctx)?;
    }
    Ok(())
}

fn mutate_history(t: &mut Tape, items: &mut Vec<(usize, Node)>) -> &'static str {
    let n = items.len();
    match t.below(7) {
        0 => {
            let i = t.below(n);
            items[i].0 += 1;
            "depth+1"
        }
        1 => {
            let i = t.below(n);
            items[i].0 = items[i].0.saturating_sub(1);
            "depth-1"
        }
        2 => {
            let i = t.below(n);
            items.remove(i);
            "item-dropped"
        }
        3 => {
            let i = t.below(n);
            let it = items[i].clone();
            items.insert(i, it);
            "item-repeated"
        }
        4 => {
            if n >= 2 {
                let i = t.below(n - 1);
                items.swap(i, i + 1);
            }
            "adjacent-swapped"
        }
        5 => {
            let i = t.below(n + 1);
            let d = t.below(9);
            items.insert(i, (d, gen_leaf(t)));
            "item-inserted"
        }
        _ => {
            let i = t.below(n);
            items[i].0 = t.choose(&[0usize, 1, 2, 127, 128, 129, 130, 255, 256, 1 << 20, usize::MAX]);
            "depth-extreme"
        }
    }
}

fn random_trees(t: &mut Tape, ctx: &mut Ctx) -> R {
    ref_ready()?;
    let class = t.below(16);
    let (internal, kp) = gen_internal(t);
    match class {
        7 => deep_hidden(t, &internal, kp, ctx),
        10 => {
            // deep chains around the 128-level limit
            let depth = match t.below(8) {
                0 => 127,
                1 | 2 => 128,
                3 | 4 => 129,
                5 => 130 + t.below(200),
                6 => 100 + t.below(29),
                _ => 40 + t.below(60),
            };
            let mut tree = chain_tree(t, depth);
            if t.chance(64) {
                // the deepest leaf pair is also present near the root: shortest proof wanted
                if let Node::Branch(l, r) = &mut tree {
                    let dup = Node::Leaf { script: vec![0x51, 0, 0], ver: 0xc4 };
                    if matches!(**l, Node::Leaf { .. }) {
                        **l = dup;
                    } else {
                        **r = dup;
                    }
                }
            }
            let items = rt::dfs_items(&tree);
            if depth > rt::MAX_DEPTH {
                ctx.eval();
                let got = lib_build(&items, &internal)?;
                ensure!(got.is_err(), "a tree with leaves at depth {} (limit {}) is finalized", depth, rt::MAX_DEPTH);
                ctx.class("chain:>128:refused");
                ctx.nontrivial(&("chain", depth, items.first().map(|i| i.0)));
                if ctx.wants_sample("chain:>128") {
                    let stage = got.err().unwrap_or_default();
                    ctx.sample("chain:>128", || json!({"depth": depth, "refused_at": stage}));
                }
                return Ok(());
            }
            ctx.class(match depth {
                128 => "chain:128",
                127 => "chain:127",
                _ => "chain:<127",
            });
            let plan = Plan { full_neg_keys: 2, few: 2, max_keys: 6 };
            build_valid_and_check("chain", &tree, &[], &internal, &plan, t, ctx)?;
            if let Some(kp) = kp {
                check_keypair(&kp, Some(rt::merkle_root(&tree)), ctx)?;
            }
            Ok(())
        }
        11 => {
            let root = if t.bool() { Some(t.arr32()) } else { None };
            check_key_spend(&internal, root, t, ctx)?;
            if let Some(kp) = kp {
                check_keypair(&kp, root, ctx)?;
            }
            Ok(())
        }
        _ => {
            let n = 1 + t.below(40);
            let dup_chance: u32 = if class >= 12 { 90 } else { 20 };
            let hide_chance: u32 = if class >= 12 || class == 8 { 30 } else { 0 };
            let mut made: Vec<Node> = Vec::new();
            let mut leaf = |t: &mut Tape| {
                let l = if !made.is_empty() && t.chance(dup_chance) {
                    // same script (and mostly the same version) somewhere else in the tree
                    let mut l = made[t.below(made.len())].clone();
                    if t.chance(40) {
                        if let Node::Leaf { ver, .. } = &mut l {
                            *ver ^= 2;
                            if *ver == 0x50 {
                                *ver = 0x54;
                            }
                        }
                    }
                    l
                } else {
                    gen_leaf(t)
                };
                made.push(l.clone());
                l
            };
            let full = gen_shape(t, n, &mut leaf);
            let mut inner = Vec::new();
            let tree = if hide_chance > 0 { hide_subtrees(t, &full, hide_chance, &mut 0, &mut inner) } else { full };
            let plan = Plan { full_neg_keys: 3, few: 2, max_keys: 40 };
            if class == 8 || class == 9 {
                // a history that may or may not be a DFS walk
                let mut items = rt::dfs_items(&tree);
                let what = mutate_history(t, &mut items);
                let want = rt::tree_from_dfs(&items);
                let got = lib_build(&items, &internal)?;
                ctx.eval();
                let depths: Vec<usize> = items.iter().map(|(d, _)| *d).collect();
                let visible = items.iter().any(|(_, n)| matches!(n, Node::Leaf { .. }));
                return match (want, got) {
                    (None, Err(stage)) => {
                        ctx.class(&format!("history:{}:invalid:refused", what));
                        ctx.nontrivial(&("history", &depths));
                        if ctx.wants_sample("history:invalid") {
                            ctx.sample("history:invalid", || json!({"mutation": what, "depths": depths, "refused_at": stage}));
                        }
                        Ok(())
                    }
                    (None, Ok(_)) => Err(Failure::new(format!("the builder finalizes the history with depths {:?} ({}), which is not a DFS walk of a complete tree of depth <= 128", depths, what))),
                    (Some(_), Err(stage)) => {
                        if !visible {
                            return Ok(());
                        }
                        Err(Failure::new(format!("the builder refuses the valid DFS history with depths {:?} ({}): {}", depths, what, stage)))
                    }
                    (Some(tree2), Ok(info)) => {
                        ctx.class(&format!("history:{}:valid", what));
                        check_info("history:valid", &tree2, &[], &info, &internal, &plan, t, ctx)
                    }
                };
            }
            build_valid_and_check(if inner.is_empty() && hide_chance == 0 { "random" } else { "random:hidden" }, &tree, &inner, &internal, &plan, t, ctx)?;
            if let Some(kp) = kp {
                check_keypair(&kp, Some(rt::merkle_root(&tree)), ctx)?;
            }
            Ok(())
        }
    }
}

// ---------------------------------------------------------------------------------------------
// 4. Huffman construction
// ---------------------------------------------------------------------------------------------

fn gen_weights(t: &mut Tape, n: usize) -> (Vec<u32>, &'static str) {
    match t.below(10) {
        0 => (vec![0; n], "all-zero"),
        1 => {
            let w = t.edgy_u32();
            (vec![w; n], "all-equal")
        }
        2 => ((0..n).map(|_| if t.bool() { u32::MAX } else { t.edgy_u32() }).collect(), "with-u32-max"),
        3 => ((0..n).map(|_| t.below(4) as u32).collect(), "many-ties"),
        4 => {
            // powers of two: the optimal tree is a chain
            let s = t.below(16);
            ((0..n).map(|i| 1u32 << ((i + s) % 32)).collect(), "powers-of-two")
        }
        5 => {
            // fibonacci-like: maximally deep optimal tree
            let (mut a, mut b) = (1u32, 1 + t.below(2) as u32);
            let mut v = Vec::new();
            for _ in 0..n {
                v.push(a);
                let c = a.saturating_add(b);
                a = b;
                b = c;
            }
            if t.bool() {
                v.reverse();
            }
            (v, "fibonacci")
        }
        6 => ((0..n).map(|_| t.edgy_u32()).collect(), "edge-biased"),
        7 => ((0..n).map(|_| if t.chance(100) { 0 } else { u32::from(t.u8()) }).collect(), "zeros-and-small"),
        _ => ((0..n).map(|_| t.u32()).collect(), "random"),
    }
}

fn huffman(t: &mut Tape, ctx: &mut Ctx) -> R {
    ref_ready()?;
    let (internal, _) = gen_internal(t);
    let xo = internal.serialize();
    let size_class = t.below(32);
    let n = match size_class {
        0..=27 => 1 + t.below(16),
        28 | 29 => 0,
        _ => 17 + t.below(134),
    };
    let big = n > 16;
    let (weights, wclass) = gen_weights(t, n);
    let mut scripts: Vec<Vec<u8>> = (0..n)
        .map(|i| {
            let mut s = vec![i as u8, 0x51];
            let k = t.below(3);
            s.extend_from_slice(&t.bytes(k));
            s
        })
        .collect();
    let mut dups = false;
    if n >= 2 && !big && t.chance(50) {
        let a = t.below(n);
        let mut b = t.below(n - 1);
        if b >= a {
            b += 1;
        }
        scripts[b] = scripts[a].clone();
        dups = true;
    }
    let input: Vec<(u32, Script)> = weights.iter().zip(&scripts).map(|(w, s)| (*w, Script::from(s.clone()))).collect();
    let got = guard::guard("TaprootSpendInfo::with_huffman_tree", n * 64, || {
        TaprootSpendInfo::with_huffman_tree(secp(), internal, input.into_iter()).map_err(|e| format!("{:?}", e))
    })?;
    ctx.eval();
    if n == 0 {
        ensure!(got.is_err(), "with_huffman_tree of an empty list gives a spend info");
        ctx.class("huffman:empty:refused");
        return Ok(());
    }
    let info = match got {
        Ok(i) => i,
        Err(e) => {
            // documented: refused when the tree would be deeper than 128. With u32 weights that needs many zero
            // weights: on the path to a leaf at depth d, the subtree of zero weight below the lowest positive node has
            // at most z leaves (z = number of zero weights) and so at most z - 1 levels; above it the node weights
            // grow at least like the Fibonacci numbers (each sibling weighs at least as much as the node's heavier
            // child in a greedy merge of the two lightest), and the root weighs at most n * 2^32 < 2^40 < F(60).
            // So d <= z + 58, and a refusal needs z >= 71; with fewer than 64 zero weights it is a violation.
            let zeros = weights.iter().filter(|w| **w == 0).count();
            if zeros >= 64 {
                ctx.class("huffman:refused:>=64-zero-weights");
                return Ok(());
            }
            return Err(Failure::new(format!(
                "with_huffman_tree refuses {} weights of which {} are zero (no optimal tree over them is deeper than {} levels, the limit is 128): {} - weights {:?}",
                n,
                zeros,
                zeros + 58,
                e,
                weights
            )));
        }
    };
    let (l_root, l_out, l_par) = guard::guard("TaprootSpendInfo accessors", 0, || {
        (info.merkle_root().map(|r| r.to_byte_array()), info.output_key().into_inner().serialize(), info.output_key_parity())
    })?;
    let Some(root) = l_root else {
        return Err(Failure::new("with_huffman_tree gives a spend info without a merkle root"));
    };
    // the reference derives the output key from the root every leaf's own proof leads to
    let Some(ok) = rt::output_key(&xo, Some(&root)) else {
        ctx.exclude();
        return Ok(());
    };
    let out_ref = xonly_from(&ok.x)?;
    ensure_eq!(hex(&l_out), hex(&ok.x), "Huffman spend info: output key differs from lift_x(internal) + tweak*G (internal {}, root {})", hex(&xo), hex(&root));
    ensure_eq!(l_par == Parity::Odd, ok.odd, "Huffman spend info: output key parity (internal {}, root {})", hex(&xo), hex(&root));

    let mut depths: Vec<usize> = Vec::with_capacity(n);
    let examine: Vec<usize> = if big { (0..12).map(|_| t.below(n)).collect() } else { (0..n).collect() };
    let mut sers: Vec<Vec<u8>> = Vec::new();
    for i in 0..n {
        let key = (scripts[i].clone(), 0xc4u8);
        let Some(cb) = lib_control_block(&info, &key)? else {
            return Err(Failure::new(format!("Huffman tree over weights {:?}: no control block for script #{}", weights, i)));
        };
        let (ser, size) = guard::guard("ControlBlock::{serialize,size}", 0, || (cb.serialize(), cb.size()))?;
        ensure!(ser.len() >= 33 && (ser.len() - 33) % 32 == 0 && size == ser.len(), "Huffman: control block size {} / serialized length {}", size, ser.len());
        let d = (ser.len() - 33) / 32;
        depths.push(d);
        if examine.contains(&i) {
            ctx.evals_n(3);
            // own verification: the path leads from this leaf to the committed root
            let path: Vec<H> = ser[33..]
                .chunks_exact(32)
                .map(|c| {
                    let mut a = [0u8; 32];
                    a.copy_from_slice(c);
                    a
                })
                .collect();
            let r = rt::root_from_path(&rt::leaf_hash(0xc4, &scripts[i]), &path);
            ensure_eq!(hex(&r), hex(&root), "Huffman tree over weights {:?}: the path in the control block of script #{} does not lead to the merkle root", weights, i);
            ensure_eq!(hex(&ser[..33]), hex(&rt::control_block_bytes(0xc4, ok.odd, &xo, &[])), "Huffman: control block header of script #{}", i);
            ensure!(lib_verify(&cb, &out_ref, &scripts[i])?, "Huffman tree over weights {:?}: the control block of script #{} does not verify", weights, i);
            match lib_parse_cb(&ser)? {
                Some(back) => ensure!(back == cb, "Huffman: from_slice(serialize()) differs for script #{}", i),
                None => return Err(Failure::new(format!("Huffman: from_slice refuses the control block of script #{}", i))),
            }
        }
        sers.push(ser);
    }
    // negatives on one leaf
    {
        let i = t.below(n);
        let env = NegEnv { ser: &sers[i], script: &scripts[i], out: out_ref, internal, others: &scripts };
        for _ in 0..2 {
            let k = t.below(NEG_KINDS);
            if negative(k, &env, t, ctx)? {
                ctx.nontrivial(&("huffman-neg", n, wclass, k, depths[i]));
            }
        }
    }
    ctx.class(&format!("huffman:weights:{}", wclass));
    ctx.class(match n {
        1 => "huffman:1-leaf",
        2 => "huffman:2-leaves",
        3..=16 => "huffman:3-16-leaves",
        _ => "huffman:17-150-leaves",
    });
    let maxd = depths.iter().copied().max().unwrap_or(0);
    if dups {
        // documented: the shortest control block is returned for a script that occurs twice;
        // every recorded branch of every script is a valid proof
        ctx.class("huffman:duplicate-script");
        let map: Vec<(Vec<u8>, Vec<Vec<u8>>)> = guard::guard("as_script_map", 0, || {
            info.as_script_map().iter().map(|((s, _), set)| (s.to_bytes(), set.iter().map(|b| b.serialize()).collect())).collect()
        })?;
        let distinct: BTreeSet<&Vec<u8>> = scripts.iter().collect();
        ensure_eq!(map.len(), distinct.len(), "Huffman with a repeated script: number of script map entries");
        for (s, branches) in &map {
            let i = scripts.iter().position(|x| x == s);
            let Some(i) = i else { return Err(Failure::new("Huffman: script map holds a script that was not given")) };
            let mult = scripts.iter().filter(|x| *x == s).count();
            ensure!(!branches.is_empty() && branches.len() <= mult, "Huffman: {} branches recorded for a script given {} times", branches.len(), mult);
            let shortest = branches.iter().map(|b| b.len() / 32).min().unwrap_or(0);
            ensure_eq!(depths[i], shortest, "Huffman: control_block does not return the shortest of the recorded branches of a repeated script");
            for b in branches {
                let path: Vec<H> = b
                    .chunks_exact(32)
                    .map(|c| {
                        let mut a = [0u8; 32];
                        a.copy_from_slice(c);
                        a
                    })
                    .collect();
                ctx.eval();
                ensure_eq!(hex(&rt::root_from_path(&rt::leaf_hash(0xc4, s), &path)), hex(&root), "Huffman: a recorded branch of a repeated script does not lead to the merkle root");
            }
        }
        ctx.nontrivial(&("huffman-dup", n, wclass, &depths));
        return Ok(());
    }
    // the script map holds exactly the given scripts, one branch each, and that branch is the control block's
    {
        let map: Vec<(Vec<u8>, u8, Vec<Vec<u8>>)> = guard::guard("as_script_map", 0, || {
            info.as_script_map().iter().map(|((s, v), set)| (s.to_bytes(), v.as_u8(), set.iter().map(|b| b.serialize()).collect())).collect()
        })?;
        ctx.eval();
        ensure_eq!(map.len(), n, "Huffman over {} distinct scripts: number of script map entries", n);
        for (s, v, branches) in &map {
            let Some(i) = scripts.iter().position(|x| x == s) else { return Err(Failure::new(format!("Huffman: the script map holds a script that was not given: {}", hex(s)))) };
            ensure_eq!(*v, 0xc4u8, "Huffman: leaf version of script #{}", i);
            ensure_eq!(branches.len(), 1, "Huffman: number of merkle branches recorded for script #{} (given once)", i);
            ensure_eq!(hex(&branches[0]), hex(&sers[i][33..]), "Huffman: the recorded merkle branch of script #{} is not the path of its control block", i);
        }
    }
    // optimality
    ctx.evals_n(2);
    let cost: u128 = weights.iter().zip(&depths).map(|(w, d)| u128::from(*w) * *d as u128).sum();
    let best = rt::huffman_cost(&weights);
    ensure_eq!(cost, best, "Huffman tree is not optimal: weights {:?} got depths {:?} (sum of weight*depth vs optimum)", weights, depths);
    for i in 0..n {
        for j in 0..n {
            ensure!(
                !(weights[i] > weights[j] && depths[i] > depths[j]),
                "Huffman tree places a heavier leaf deeper than a lighter one: weight {} at depth {}, weight {} at depth {} (weights {:?}, depths {:?})",
                weights[i],
                depths[i],
                weights[j],
                depths[j],
                weights,
                depths
            );
        }
    }
    if maxd <= 120 {
        // the leaves are exactly the given scripts: Kraft sum 1
        let kraft: u128 = depths.iter().map(|d| 1u128 << (maxd - d)).sum();
        ensure_eq!(kraft, 1u128 << maxd, "Huffman tree with depths {:?} is not a complete binary tree over exactly the given leaves", depths);
    }
    if n >= 3 {
        ctx.nontrivial(&("huffman", n, wclass, &depths));
    }
    if ctx.wants_sample("huffman") && n >= 3 && n <= 16 {
        ctx.sample("huffman", || json!({"weights": weights, "depths": depths, "cost": cost.to_string(), "optimum": best.to_string(), "class": wclass}));
    }
    Ok(())
}

pub fn property() -> Property {
    Property {
        id: "C15",
        rule: "shapes_exhaustive: every full binary tree shape with 1..=7 leaves (197 shapes; thorough 1..=9, 2056 shapes) x content \
               variants (variant 0: distinct one-byte scripts, default version via add_leaf; others: seeded scripts of 0..600 bytes \
               incl. the 0xfd compact-size boundary, any even leaf version except 0x50, internal key from a seeded secret / x-only \
               bytes / pool), fed to TaprootBuilder leaf by leaf in DFS order. Oracle (refimpl/taproot.rs, self-tested against the \
               BIP-341 wallet vectors, Catalan counts and brute-force Huffman): merkle root over own tagged hashes with \
               TapLeaf/TapBranch/TapTweak '/elements' tags and lexicographically sorted pairs; output key and parity as \
               even-Y internal point + tweak*G by point addition; script map == visible leaves with exactly their sibling paths; per \
               leaf the control block exists, size() == serialize().len() == 33+32*depth, bytes == reference bytes, from_slice \
               round trip, verifies; TapLeafHash / TapTweakHash equal the reference. 10 negatives per leaf: mutated script, script \
               of another leaf, other leaf version, path element changed / dropped / added / two adjacent swapped (skipped if \
               equal), parity flipped, other output key, internal key as output key: from_slice refuses or verification is false. \
               depth_sequences_exhaustive: every sequence of length 1..=5 over depths 0..=5 (thorough 1..=6 over 0..=6) with every \
               leaf/hidden mask; accepted (all add_* Ok and finalize Ok) iff a recursive-descent parse from depth 0 consumes exactly \
               the sequence (cross-checked against an aligned-Kraft-sum formulation); accepted ones get the full comparison; a valid \
               all-hidden tree may be refused. random_trees: tape-driven shapes of 1..=40 leaves with forced duplicate scripts \
               (control_block must return a shortest-depth proof, every occurrence's proof verifies), hidden nodes replacing \
               subtrees (random hash or the real subtree hash: then leaves below have no control block but an externally built \
               proof verifies), DFS histories with one mutation (depth +-1, extreme depth, item dropped / repeated / inserted / \
               swapped) judged by the same oracle, chains to depth 40..=128 (accepted, sampled leaves) and 129..=329 (refused), \
               chains to depth 126..=129 whose deepest nodes are hidden (bottom node / bottom pair hidden, a hidden pair or \
               hidden + leaf one level below the bottom, a sibling leaf replaced by a hidden node or a hidden pair): refused \
               iff some node is deeper than 128 - a hidden node has no merkle branch to overflow, so only the depth check of \
               insert refuses it - otherwise accepted, and the externally built proof (up to 128 elements) of the leaf behind a \
               hidden node verifies, new_key_spend with and without a root, and for known secrets Keypair::tap_tweak: the \
               tweaked secret regenerates exactly the reference output point. For every accepted tree and every key-spend \
               info Script::new_v1_p2tr(internal, root), Script::new_v1_p2tr_tweaked(output_key()), Address::p2tr(..) and \
               Address::p2tr_tweaked(..).script_pubkey() equal 51 20 || x(reference output key). huffman: 0..=16 (rarely up to 150) weighted scripts, weight classes all-zero / \
               all-equal / u32::MAX / ties / powers of two / fibonacci / edge-biased / random; empty input refused; every control \
               block's path leads to the merkle root under the reference hashes and verifies; sum(weight*depth) == optimum of the \
               harness's greedy; w_i > w_j => depth_i <= depth_j; Kraft sum 1; a repeated script returns the shortest recorded \
               branch; without repeated scripts the script map has exactly one entry per script with exactly one branch, the \
               control block's path; a refusal is accepted only with >= 64 zero weights (no optimal tree over u32 weights is \
               deeper than #zero-weights + 58). Non-trivial: a tree with >= 3 leaves, or a hidden node, or a duplicate leaf, or a negative verification \
               (distinct by DFS depth/hidden signature, leaf and negative kind), invalid sequences of >= 3 items or with a hidden \
               node, Huffman inputs with >= 3 leaves (distinct by weight class and depth vector).",
        assumptions: &[
            "libsecp256k1 point addition (PublicKey::combine, from_secret_key) is correct; the library's x-only tweak API is not used by the oracle",
            "the harness SHA-256 is checked against FIPS 180-4 vectors, the taproot reference against the BIP-341 wallet vectors at start-up",
            "a verification succeeding for a changed script / path is a hash collision (probability 2^-128) and is treated as impossible",
            "the domain of leaf versions is every even byte except 0x50 (the annex tag): LeafVersion::from_u8 must accept them (the statement does not define the domain; BIP-341 reserves exactly these)",
            "'built by weight as a Huffman tree' is read as: minimum sum of weight*depth (the library sums in u64, so u32 weights cannot saturate); a non-optimal tree is reported even when no heavier leaf is deeper than a lighter one",
        ],
        subs: vec![
            Sub {
                name: "shapes_exhaustive",
                kind: Kind::Index {
                    count: |t| match t {
                        Tier::Quick => 197 * SHAPE_VARIANTS_QUICK,
                        Tier::Thorough => 2056 * SHAPE_VARIANTS_THOROUGH,
                    },
                    exhaustive: true,
                    f: shapes_exhaustive,
                },
            },
            Sub { name: "depth_sequences_exhaustive", kind: Kind::Index { count: seq_count, exhaustive: true, f: depth_sequences_exhaustive } },
            Sub { name: "random_trees", kind: Kind::Tape { max_len: 3000, quick: 18_000, thorough: 400_000, f: random_trees } },
            Sub { name: "huffman", kind: Kind::Tape { max_len: 600, quick: 30_000, thorough: 600_000, f: huffman } },
        ],
        known: vec![],
    }
}
