//! C01 — consensus encoding is an exact bijection on canonical values.
use std::fmt::Debug;
use std::io;

use elements::confidential::{Asset, Nonce, Value};
use elements::encode::{deserialize, deserialize_partial, serialize, Decodable, Encodable};
use elements::hashes::Hash as _;
use elements::{
    dynafed, AssetIssuance, Block, BlockHash, BlockHeader, LockTime, OutPoint, Script, Sequence, Transaction, TxIn,
    TxInWitness, TxOut, TxOutWitness, Txid,
};
use serde_json::json;

use crate::engine::*;
use crate::gen::{self, mutate, TxOpts};
use crate::refimpl::enc;
use crate::{ensure, ensure_eq, fail};

struct CountingWriter(usize);
impl io::Write for CountingWriter {
    fn write(&mut self, b: &[u8]) -> io::Result<usize> {
        self.0 += b.len();
        Ok(b.len())
    }
    fn flush(&mut self) -> io::Result<()> {
        Ok(())
    }
}

/// value -> bytes -> value, against the reference bytes
pub fn roundtrip_value<T: Encodable + Decodable + PartialEq + Debug>(
    name: &str,
    v: &T,
    want: Option<&[u8]>,
    junk: &[u8],
    ctx: &mut Ctx,
) -> Result<Vec<u8>, Failure> {
    let bytes = guard::guard("serialize", 0, || serialize(v))?;
    ctx.eval();
    if let Some(w) = want {
        if bytes != w {
            return Err(Failure::new(format!(
                "{}: serialize differs from the reference encoding\n lib={}\n ref={}\n value={:?}",
                name,
                hex(&bytes),
                hex(w),
                v
            )));
        }
    }
    let mut cw = CountingWriter(0);
    let reported = guard::guard("consensus_encode", 0, || v.consensus_encode(&mut cw))?;
    match reported {
        Ok(n) => {
            ensure!(
                n == cw.0 && n == bytes.len(),
                "{}: consensus_encode reported {} bytes, wrote {}, serialize gives {} ({:?})",
                name,
                n,
                cw.0,
                bytes.len(),
                v
            );
        }
        Err(e) => fail!("{}: consensus_encode to an infallible writer failed: {}", name, e),
    }
    let back = guard::guard("deserialize", bytes.len(), || deserialize::<T>(&bytes))?;
    match back {
        Ok(b) => ensure!(&b == v, "{}: deserialize(serialize(v)) != v\n v={:?}\n back={:?}", name, v, b),
        Err(e) => fail!("{}: own encoding rejected: {} (bytes {}, value {:?})", name, e, hex(&bytes), v),
    }
    if !junk.is_empty() {
        let mut ext = bytes.clone();
        ext.extend_from_slice(junk);
        match guard::guard("deserialize_partial", ext.len(), || deserialize_partial::<T>(&ext))? {
            Ok((b, n)) => {
                ensure!(n == bytes.len(), "{}: deserialize_partial consumed {} of an encoding of {} bytes", name, n, bytes.len());
                ensure!(&b == v, "{}: deserialize_partial value differs", name);
            }
            Err(e) => fail!("{}: deserialize_partial rejected a valid encoding followed by junk: {}", name, e),
        }
        match guard::guard("deserialize", ext.len(), || deserialize::<T>(&ext))? {
            Ok(_) => fail!("{}: deserialize accepted {} trailing bytes", name, junk.len()),
            Err(_) => {}
        }
    }
    Ok(bytes)
}

/// bytes accepted => re-encoding reproduces exactly these bytes (implies full consumption, one
/// encoding per value, rejection of every non-canonical form) and decodes back to an equal value.
/// Returns Some(error kind) when rejected.
pub fn accept_implies_canonical<T: Encodable + Decodable + PartialEq + Debug>(
    name: &str,
    b: &[u8],
    ctx: &mut Ctx,
) -> Result<Option<String>, Failure> {
    ctx.eval();
    match guard::guard("deserialize", b.len(), || deserialize::<T>(b))? {
        Err(e) => Ok(Some(err_kind(&e))),
        Ok(v) => {
            let re = guard::guard("serialize", b.len(), || serialize(&v))?;
            if re != b {
                return Err(Failure::new(format!(
                    "{}: decoder accepted bytes that do not re-encode to themselves\n input ={}\n reenc ={}\n value={:?}",
                    name,
                    hex(b),
                    hex(&re),
                    v
                )));
            }
            match guard::guard("deserialize", re.len(), || deserialize::<T>(&re))? {
                Ok(v2) => ensure!(v2 == v, "{}: decode(encode(decode(b))) != decode(b)", name),
                Err(e) => fail!("{}: re-encoding of an accepted value is rejected: {}", name, e),
            }
            Ok(None)
        }
    }
}

fn err_kind(e: &elements::encode::Error) -> String {
    use elements::encode::Error as E;
    match e {
        E::Io(_) => "Io".into(),
        E::Bitcoin(_) => "Bitcoin".into(),
        E::OversizedVectorAllocation { .. } => "OversizedVectorAllocation".into(),
        E::ParseFailed(s) => format!("ParseFailed({})", s),
        E::UnexpectedEOF => "UnexpectedEOF".into(),
        E::InvalidConfidentialPrefix(_) => "InvalidConfidentialPrefix".into(),
        E::Secp256k1(_) => "Secp256k1".into(),
        E::Secp256k1zkp(_) => "Secp256k1zkp".into(),
        E::PsetError(_) => "PsetError".into(),
        E::HexFixedError(_) => "Hex".into(),
        E::HexVariableError(_) => "Hex".into(),
        E::BadLockTime(_) => "BadLockTime".into(),
        E::NonMinimalVarInt => "NonMinimalVarInt".into(),
    }
}

pub const TYPES: &[&str] = &[
    "Transaction", "TxIn", "TxOut", "TxInWitness", "TxOutWitness", "Block", "BlockHeader", "Params", "FullParams",
    "Asset", "Value", "Nonce", "AssetIssuance", "OutPoint", "Script", "LockTime", "Sequence", "Txid", "BlockHash",
    "AssetId",
];

/// A generated canonical value with its reference encoding and layout
pub enum AnyVal {
    Tx(Transaction),
    TxIn(TxIn),
    TxOut(TxOut),
    InWit(TxInWitness),
    OutWit(TxOutWitness),
    Block(Block),
    Header(BlockHeader),
    Params(dynafed::Params),
    FullParams(dynafed::FullParams),
    Asset(Asset),
    Value(Value),
    Nonce(Nonce),
    Issuance(AssetIssuance),
    OutPoint(OutPoint),
    Script(Script),
    LockTime(LockTime),
    Sequence(Sequence),
    Txid(Txid),
    BlockHash(BlockHash),
    AssetId(elements::AssetId),
}

pub fn gen_any(t: &mut Tape, ty: usize) -> AnyVal {
    let o = TxOpts::default();
    let alone = TxOpts { witness: false, ..o };
    match ty {
        0 => AnyVal::Tx(gen::gen_tx(t, &o)),
        1 => AnyVal::TxIn(gen::gen_txin(t, &alone)),
        2 => AnyVal::TxOut(gen::gen_txout(t, &alone)),
        3 => AnyVal::InWit(gen::gen_in_witness(t, true)),
        4 => AnyVal::OutWit(gen::gen_out_witness(t)),
        5 => AnyVal::Block(gen::gen_block(t)),
        6 => AnyVal::Header(gen::gen_header(t)),
        7 => AnyVal::Params(gen::gen_params(t)),
        8 => AnyVal::FullParams(gen::gen_full_params(t)),
        9 => AnyVal::Asset(gen::gen_asset(t)),
        10 => AnyVal::Value(gen::gen_value(t)),
        11 => AnyVal::Nonce(gen::gen_nonce(t)),
        12 => AnyVal::Issuance(if t.chance(30) { AssetIssuance::null() } else { gen::gen_issuance_nonnull(t) }),
        13 => AnyVal::OutPoint(OutPoint { txid: gen::gen_txid(t), vout: t.edgy_u32() }),
        14 => AnyVal::Script(gen::gen_script(t, true)),
        15 => AnyVal::LockTime(gen::gen_locktime(t)),
        16 => AnyVal::Sequence(Sequence(t.edgy_u32())),
        17 => AnyVal::Txid(gen::gen_txid(t)),
        18 => AnyVal::BlockHash(BlockHash::from_byte_array(t.arr32())),
        _ => AnyVal::AssetId(gen::gen_asset_id(t)),
    }
}

impl AnyVal {
    pub fn ref_encode(&self) -> (Vec<u8>, enc::Layout) {
        enc::with_layout(|| {
            let mut out = Vec::new();
            match self {
                AnyVal::Tx(v) => enc::tx(&mut out, v, true),
                AnyVal::TxIn(v) => enc::txin(&mut out, v),
                AnyVal::TxOut(v) => enc::txout(&mut out, v),
                AnyVal::InWit(v) => enc::in_witness(&mut out, v),
                AnyVal::OutWit(v) => enc::out_witness(&mut out, v),
                AnyVal::Block(v) => enc::block(&mut out, v),
                AnyVal::Header(v) => enc::header(&mut out, v, false),
                AnyVal::Params(v) => enc::params(&mut out, v),
                AnyVal::FullParams(v) => enc::full_params(&mut out, v),
                AnyVal::Asset(v) => enc::asset(&mut out, v),
                AnyVal::Value(v) => enc::value(&mut out, v),
                AnyVal::Nonce(v) => enc::nonce(&mut out, v),
                AnyVal::Issuance(v) => enc::issuance(&mut out, v),
                AnyVal::OutPoint(v) => enc::outpoint(&mut out, v),
                AnyVal::Script(v) => enc::var_bytes(&mut out, v.as_bytes()),
                AnyVal::LockTime(v) => out.extend_from_slice(&v.to_consensus_u32().to_le_bytes()),
                AnyVal::Sequence(v) => out.extend_from_slice(&v.0.to_le_bytes()),
                AnyVal::Txid(v) => out.extend_from_slice(&v.to_byte_array()),
                AnyVal::BlockHash(v) => out.extend_from_slice(&v.to_byte_array()),
                AnyVal::AssetId(v) => out.extend_from_slice(&v.to_byte_array()),
            }
            out
        })
    }
    pub fn type_index(&self) -> usize {
        match self {
            AnyVal::Tx(_) => 0,
            AnyVal::TxIn(_) => 1,
            AnyVal::TxOut(_) => 2,
            AnyVal::InWit(_) => 3,
            AnyVal::OutWit(_) => 4,
            AnyVal::Block(_) => 5,
            AnyVal::Header(_) => 6,
            AnyVal::Params(_) => 7,
            AnyVal::FullParams(_) => 8,
            AnyVal::Asset(_) => 9,
            AnyVal::Value(_) => 10,
            AnyVal::Nonce(_) => 11,
            AnyVal::Issuance(_) => 12,
            AnyVal::OutPoint(_) => 13,
            AnyVal::Script(_) => 14,
            AnyVal::LockTime(_) => 15,
            AnyVal::Sequence(_) => 16,
            AnyVal::Txid(_) => 17,
            AnyVal::BlockHash(_) => 18,
            AnyVal::AssetId(_) => 19,
        }
    }
    pub fn features(&self) -> Vec<&'static str> {
        match self {
            AnyVal::Tx(tx) => gen::tx_features(tx),
            AnyVal::Block(b) => {
                let mut f = header_features(&b.header);
                if b.txdata.len() >= 0xfd {
                    f.push("count>=0xfd");
                }
                for t in &b.txdata {
                    f.extend(gen::tx_features(t));
                }
                f.sort();
                f.dedup();
                f
            }
            AnyVal::Header(h) => header_features(h),
            AnyVal::TxIn(i) => {
                let mut f = vec![];
                if i.is_pegin {
                    f.push("pegin");
                }
                if i.has_issuance() {
                    f.push("issuance");
                }
                if i.previous_output.vout == u32::MAX {
                    f.push("coinbase-index");
                }
                if i.script_sig.len() >= 0xfd {
                    f.push("script>=0xfd");
                }
                f
            }
            AnyVal::TxOut(o) => {
                let mut f = vec![];
                if o.asset.is_confidential() || o.value.is_confidential() || o.nonce.is_confidential() {
                    f.push("confidential");
                }
                if o.script_pubkey.len() >= 0xfd {
                    f.push("script>=0xfd");
                }
                f
            }
            AnyVal::InWit(w) => {
                if w.is_empty() {
                    vec![]
                } else {
                    vec!["in-witness"]
                }
            }
            AnyVal::OutWit(w) => {
                if w.is_empty() {
                    vec![]
                } else {
                    vec!["out-witness"]
                }
            }
            AnyVal::Params(p) => {
                if p.is_null() {
                    vec![]
                } else {
                    vec!["dynafed"]
                }
            }
            AnyVal::FullParams(_) => vec!["dynafed"],
            AnyVal::Asset(a) => {
                if a.is_confidential() {
                    vec!["confidential"]
                } else {
                    vec![]
                }
            }
            AnyVal::Value(a) => {
                if a.is_confidential() {
                    vec!["confidential"]
                } else {
                    vec![]
                }
            }
            AnyVal::Nonce(a) => {
                if a.is_confidential() {
                    vec!["confidential"]
                } else {
                    vec![]
                }
            }
            AnyVal::Issuance(i) => {
                if i.is_null() {
                    vec![]
                } else {
                    vec!["issuance"]
                }
            }
            AnyVal::Script(s) => {
                if s.len() >= 0xfd {
                    vec!["script>=0xfd"]
                } else {
                    vec![]
                }
            }
            _ => vec![],
        }
    }
}

fn header_features(h: &BlockHeader) -> Vec<&'static str> {
    match &h.ext {
        elements::BlockExtData::Proof { .. } => vec!["proof-header"],
        elements::BlockExtData::Dynafed { current, proposed, signblock_witness } => {
            let mut f = vec!["dynafed"];
            for p in [current, proposed] {
                f.push(match p {
                    dynafed::Params::Null => "params-null",
                    dynafed::Params::Compact { .. } => "params-compact",
                    dynafed::Params::Full(_) => "params-full",
                });
            }
            if !signblock_witness.is_empty() {
                f.push("signblock-witness");
            }
            f
        }
    }
}

macro_rules! dispatch_any {
    ($any:expr, $v:ident => $body:expr) => {
        match $any {
            AnyVal::Tx($v) => $body,
            AnyVal::TxIn($v) => $body,
            AnyVal::TxOut($v) => $body,
            AnyVal::InWit($v) => $body,
            AnyVal::OutWit($v) => $body,
            AnyVal::Block($v) => $body,
            AnyVal::Header($v) => $body,
            AnyVal::Params($v) => $body,
            AnyVal::FullParams($v) => $body,
            AnyVal::Asset($v) => $body,
            AnyVal::Value($v) => $body,
            AnyVal::Nonce($v) => $body,
            AnyVal::Issuance($v) => $body,
            AnyVal::OutPoint($v) => $body,
            AnyVal::Script($v) => $body,
            AnyVal::LockTime($v) => $body,
            AnyVal::Sequence($v) => $body,
            AnyVal::Txid($v) => $body,
            AnyVal::BlockHash($v) => $body,
            AnyVal::AssetId($v) => $body,
        }
    };
}

pub fn check_bytes_as(ty: usize, b: &[u8], ctx: &mut Ctx) -> Result<Option<String>, Failure> {
    let n = TYPES[ty];
    match ty {
        0 => accept_implies_canonical::<Transaction>(n, b, ctx),
        1 => accept_implies_canonical::<TxIn>(n, b, ctx),
        2 => accept_implies_canonical::<TxOut>(n, b, ctx),
        3 => accept_implies_canonical::<TxInWitness>(n, b, ctx),
        4 => accept_implies_canonical::<TxOutWitness>(n, b, ctx),
        5 => accept_implies_canonical::<Block>(n, b, ctx),
        6 => accept_implies_canonical::<BlockHeader>(n, b, ctx),
        7 => accept_implies_canonical::<dynafed::Params>(n, b, ctx),
        8 => accept_implies_canonical::<dynafed::FullParams>(n, b, ctx),
        9 => accept_implies_canonical::<Asset>(n, b, ctx),
        10 => accept_implies_canonical::<Value>(n, b, ctx),
        11 => accept_implies_canonical::<Nonce>(n, b, ctx),
        12 => accept_implies_canonical::<AssetIssuance>(n, b, ctx),
        13 => accept_implies_canonical::<OutPoint>(n, b, ctx),
        14 => accept_implies_canonical::<Script>(n, b, ctx),
        15 => accept_implies_canonical::<LockTime>(n, b, ctx),
        16 => accept_implies_canonical::<Sequence>(n, b, ctx),
        17 => accept_implies_canonical::<Txid>(n, b, ctx),
        18 => accept_implies_canonical::<BlockHash>(n, b, ctx),
        _ => accept_implies_canonical::<elements::AssetId>(n, b, ctx),
    }
}

fn pick_type(t: &mut Tape) -> usize {
    // transactions, blocks and headers get most of the weight
    match t.below(16) {
        0..=5 => 0,
        6 => 5,
        7 | 8 => 6,
        9 => 7,
        _ => t.below(TYPES.len()),
    }
}

fn describe(any: &AnyVal, bytes: &[u8]) -> serde_json::Value {
    json!({"type": TYPES[any.type_index()], "features": any.features(), "encoded_len": bytes.len(),
           "encoding_prefix_hex": hex(&bytes[..bytes.len().min(48)])})
}

/// (a) canonical values: serialize == reference bytes, reported length, decode back, partial decode
fn values(t: &mut Tape, ctx: &mut Ctx) -> R {
    let ty = pick_type(t);
    let any = gen_any(t, ty);
    let (want, _) = any.ref_encode();
    let nj = t.below(6);
    let junk = t.bytes(nj);
    let name = TYPES[ty];
    dispatch_any!(&any, v => roundtrip_value(name, v, Some(&want), &junk, ctx))?;
    let feats = any.features();
    ctx.class(&format!("value:{}", name));
    for f in &feats {
        ctx.class(&format!("feature:{}", f));
    }
    if !feats.is_empty() {
        ctx.nontrivial(&(ty, &want));
    }
    let cls = format!("value:{}", name);
    if ctx.wants_sample(&cls) && !feats.is_empty() {
        ctx.sample(&cls, || describe(&any, &want));
    }
    Ok(())
}

/// (b) mutants of valid encodings: accepted => canonical
fn mutants(t: &mut Tape, ctx: &mut Ctx) -> R {
    let ty = pick_type(t);
    let any = gen_any(t, ty);
    let (orig, layout) = any.ref_encode();
    let mut b = orig.clone();
    let nm = 1 + t.below(3);
    let mut ops = Vec::new();
    for _ in 0..nm {
        ops.push(mutate::mutate_once(t, &mut b, &layout));
    }
    if b == orig {
        ctx.class("mutant:no-op");
        return Ok(());
    }
    // decode as the original type and, sometimes, as another type
    let as_ty = if t.chance(24) { t.below(TYPES.len()) } else { ty };
    let res = check_bytes_as(as_ty, &b, ctx)?;
    for op in &ops {
        ctx.class(&format!("op:{}", op));
    }
    match &res {
        None => {
            ctx.class("mutant:accepted(re-encodes identically)");
            ctx.nontrivial(&(as_ty, &b));
            if ctx.wants_sample("mutant-accepted") {
                ctx.sample("mutant-accepted", || json!({"type": TYPES[as_ty], "ops": ops, "mutant_len": b.len(),
                    "mutant_prefix_hex": hex(&b[..b.len().min(48)])}));
            }
        }
        Some(kind) => {
            ctx.class(&format!("mutant:rejected:{}", kind));
            // got past the first field: rejected for a reason other than running out of input at once
            if b.len() > 8 {
                ctx.nontrivial(&(as_ty, &b));
            }
            let cls = format!("mutant-rejected:{}", ops[0]);
            if ctx.wants_sample(&cls) {
                ctx.sample(&cls, || json!({"type": TYPES[as_ty], "ops": ops, "error": kind, "mutant_len": b.len()}));
            }
        }
    }
    Ok(())
}

/// the rejection classes the property names, constructed on purpose; each must be an error
fn noncanonical(t: &mut Tape, ctx: &mut Ctx) -> R {
    let o = TxOpts { big: false, ..TxOpts::default() };
    let mut tx = gen::gen_tx(t, &o);
    let class = t.below(8);
    let name;
    let bytes: Vec<u8> = match class {
        0 => {
            name = "witness-flag-with-all-empty-witnesses";
            for i in &mut tx.input {
                i.witness = TxInWitness::empty();
            }
            for o in &mut tx.output {
                o.witness = TxOutWitness::empty();
            }
            let mut b = enc::tx_full(&tx);
            b[4] = 1;
            for _ in &tx.input {
                b.extend_from_slice(&[0, 0, 0, 0]);
            }
            for _ in &tx.output {
                b.extend_from_slice(&[0, 0]);
            }
            b
        }
        1 => {
            name = "witness-flag-0-but-witness-section-present";
            if !enc::tx_has_witness(&tx) {
                tx.output.push(gen::gen_txout(t, &o));
                let p = gen::pool();
                tx.output.last_mut().unwrap().witness.rangeproof = Some(Box::new(p.rangeproofs[0].clone()));
            }
            let mut b = enc::tx_full(&tx);
            b[4] = 0;
            b
        }
        2 => {
            name = "superfluous-null-issuance";
            if tx.input.is_empty() {
                tx.input.push(gen::gen_txin(t, &o));
            }
            let k = t.below(tx.input.len());
            tx.input[k].asset_issuance = AssetIssuance::null();
            if tx.input[k].previous_output.vout == u32::MAX {
                tx.input[k].previous_output.vout = 0;
            }
            // encode by hand: set the issuance bit and attach a null issuance
            let (b, l) = enc::with_layout(|| enc::tx_full(&tx));
            let start = l.bounds[k];
            let mut b = b;
            b[start + 35] |= 0x80;
            let script_len = tx.input[k].script_sig.len();
            let ins_at = start + 36 + enc::compact_size_len(script_len as u64) + script_len + 4;
            let mut iss = vec![0u8; 64];
            iss.extend_from_slice(&[0, 0]);
            b.splice(ins_at..ins_at, iss);
            b
        }
        3 => {
            name = "non-minimal-varint";
            let (b, l) = enc::with_layout(|| enc::tx_full(&tx));
            let mut b = b;
            let p = l.cs[t.below(l.cs.len())];
            let first = b[p];
            if first >= 0xfd {
                // widen a 3-byte form to the 5-byte form
                let val = u16::from_le_bytes([b[p + 1], b[p + 2]]);
                let mut e = vec![0xfe];
                e.extend_from_slice(&u32::from(val).to_le_bytes());
                b.splice(p..p + 3, e);
            } else {
                let e: Vec<u8> = match t.below(3) {
                    0 => vec![0xfd, first, 0],
                    1 => vec![0xfe, first, 0, 0, 0],
                    _ => vec![0xff, first, 0, 0, 0, 0, 0, 0, 0],
                };
                b.splice(p..p + 1, e);
            }
            b
        }
        4 => {
            name = "trailing-bytes";
            let mut b = enc::tx_full(&tx);
            let n = t.range(1, 5);
            b.extend(t.bytes(n));
            b
        }
        5 => {
            name = "unknown-confidential-prefix";
            if tx.output.is_empty() {
                tx.output.push(gen::gen_txout(t, &o));
            }
            let (b, l) = enc::with_layout(|| enc::tx_full(&tx));
            let mut b = b;
            // prefixes recorded: issuance values, then per output asset, value, nonce
            let p = l.prefixes[t.below(l.prefixes.len())];
            b[p] = t.choose(&[4u8, 5, 6, 7, 0x0c, 0x0d, 0x10, 0x80, 0xff]);
            b
        }
        6 => {
            name = "bad-witness-flag-value";
            let mut b = enc::tx_full(&tx);
            b[4] = t.choose(&[2u8, 3, 0x80, 0xff]);
            b
        }
        _ => {
            name = "truncated";
            let mut b = enc::tx_full(&tx);
            let n = t.below(b.len());
            b.truncate(n);
            b
        }
    };
    ctx.eval();
    let r = guard::guard("deserialize", bytes.len(), || deserialize::<Transaction>(&bytes))?;
    if let Ok(v) = &r {
        // a prefix swap (class 5) may land on another valid prefix only by construction error; all
        // classes here are non-canonical by construction
        let re = serialize(v);
        return Err(Failure::new(format!(
            "non-canonical transaction encoding ({}) was accepted\n input ={}\n reenc ={}",
            name,
            hex(&bytes),
            hex(&re)
        )));
    }
    ctx.class(&format!("noncanonical:{}", name));
    ctx.nontrivial(&(class, &bytes));
    let cls = format!("noncanonical:{}", name);
    if ctx.wants_sample(&cls) {
        let e = r.err().map(|e| e.to_string());
        ctx.sample(&cls, || json!({"class": name, "len": bytes.len(), "error": e}));
    }
    Ok(())
}

/// the repository's hex vectors: reference encoder self-anchor + bijection + mutants
fn vectors(idx: u64, seed: u64, ctx: &mut Ctx) -> R {
    let files = corpus_tx_files();
    let (fname, bytes) = &files[idx as usize % files.len()];
    let is_block = fname.contains("block");
    if is_block {
        let blk = match deserialize::<Block>(bytes) {
            Ok(b) => b,
            Err(e) => fail!("repository vector {} no longer decodes: {}", fname, e),
        };
        let mut want = Vec::new();
        enc::block(&mut want, &blk);
        ensure_eq!(hex(&want), hex(bytes), "reference encoder disagrees with repository vector {}", fname);
        roundtrip_value("Block", &blk, Some(bytes), &[0], ctx)?;
    } else if fname.starts_with("pset") {
        return Ok(());
    } else {
        let tx = match deserialize::<Transaction>(bytes) {
            Ok(b) => b,
            Err(e) => fail!("repository vector {} no longer decodes: {}", fname, e),
        };
        let want = enc::tx_full(&tx);
        ensure_eq!(hex(&want), hex(bytes), "reference encoder disagrees with repository vector {}", fname);
        roundtrip_value("Transaction", &tx, Some(bytes), &[0], ctx)?;
        ctx.nontrivial(&("vector", fname));
        // mutants of the vector
        let (_, layout) = enc::with_layout(|| enc::tx_full(&tx));
        let rnd = seeded_bytes(seed, idx, 4096);
        let mut t = Tape::new(&rnd);
        for _ in 0..60 {
            let mut b = bytes.clone();
            let op = mutate::mutate_once(&mut t, &mut b, &layout);
            if &b == bytes {
                continue;
            }
            let r = accept_implies_canonical::<Transaction>("Transaction", &b, ctx)?;
            ctx.class(&format!("vector-mutant:{}:{}", op, if r.is_none() { "accepted" } else { "rejected" }));
        }
    }
    ctx.class("vector");
    Ok(())
}

/// raw bytes (fuzz entry and replay format): first byte selects the type, the rest is the wire string
fn raw_bytes(t: &mut Tape, ctx: &mut Ctx) -> R {
    let ty = usize::from(t.u8()) % TYPES.len();
    let n = t.remaining();
    let b = t.bytes(n);
    let r = check_bytes_as(ty, &b, ctx)?;
    ctx.class(&format!("raw:{}:{}", TYPES[ty], if r.is_none() { "accepted" } else { "rejected" }));
    if r.is_none() && b.len() > 4 {
        ctx.nontrivial(&(ty, &b));
    }
    Ok(())
}

pub fn corpus_tx_files() -> Vec<(String, Vec<u8>)> {
    let mut out = Vec::new();
    let dir = format!("{}/corpus/tx", verif_dir());
    if let Ok(rd) = std::fs::read_dir(&dir) {
        let mut names: Vec<_> = rd.filter_map(|e| e.ok()).map(|e| e.path()).collect();
        names.sort();
        for p in names {
            if let Ok(s) = std::fs::read_to_string(&p) {
                if let Some(b) = unhex(&s) {
                    out.push((p.file_name().unwrap().to_string_lossy().to_string(), b));
                }
            }
        }
    }
    out
}

pub fn property() -> Property {
    Property {
        id: "C01",
        rule: "values: tape-generated canonical values of 20 consensus types (transactions weighted highest) over \
               coinbase/pegin/issuance/reissuance inputs, null/explicit/confidential fields, six witness fields, \
               proof/dynafed headers, lengths on both sides of the 0xfd/0x10000 varint boundaries; oracle: serialize == \
               independent reference encoder byte for byte, reported length == bytes written, decode == value, partial \
               decode with junk. mutants: 1-3 byte-level mutations (12 operators, layout-aware) of a valid encoding; \
               oracle: accepted => re-encodes to exactly the input. noncanonical: the 8 rejection classes named by the \
               property built on purpose, each must be Err. vectors: repository hex vectors + 60 mutants each. \
               Non-trivial: value with >=1 structural feature (pegin/issuance/confidential/witness/dynafed/multi-byte \
               varint); mutant differing from the valid encoding and longer than 8 bytes; distinct by encoded bytes.",
        assumptions: &[
            "secp256k1-zkp renders curve points and proofs (serialize) correctly; the harness encoder is anchored on the repository's hex vectors",
        ],
        subs: vec![
            Sub { name: "values", kind: Kind::Tape { max_len: 3000, quick: 240_000, thorough: 2_400_000, f: values } },
            Sub { name: "mutants", kind: Kind::Tape { max_len: 3000, quick: 800_000, thorough: 12_000_000, f: mutants } },
            Sub { name: "noncanonical", kind: Kind::Tape { max_len: 1500, quick: 160_000, thorough: 1_200_000, f: noncanonical } },
            Sub { name: "vectors", kind: Kind::Index { count: |t| t.pick(15, 15 * 40), exhaustive: false, f: vectors } },
            Sub { name: "raw_bytes", kind: Kind::Tape { max_len: 300, quick: 160_000, thorough: 1_600_000, f: raw_bytes } },
        ],
        known: vec![],
    }
}
