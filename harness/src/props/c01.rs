//! C01 — consensus encoding is an exact bijection on canonical values.
use crate::refimpl::Variant as _;
use std::fmt::Debug;
use std::io;

use elements::confidential::{Asset, Nonce, Value};
use elements::encode::{deserialize, deserialize_partial, serialize, Decodable, Encodable};
use elements::hashes::Hash as _;
use elements::{
    dynafed, AssetIssuance, Block, BlockHash, BlockHeader, LockTime, OutPoint, Script, Sequence, Transaction, TxIn,
    TxInWitness, TxOut, TxOutWitness, Txid,
};
use serde_json::json;

use crate::engine::*;
use crate::gen::ext_g1 as xg;
use crate::gen::{self, mutate, TxOpts};
use crate::refimpl::enc;
use crate::{ensure, ensure_eq, fail};

struct CountingWriter(usize);
impl io::Write for CountingWriter {
    fn write(&mut self, b: &[u8]) -> io::Result<usize> {
        self.0 += b.len();
        Ok(b.len())
    }
    fn flush(&mut self) -> io::Result<()> {
        Ok(())
    }
}

/// reader that hands out at most `k` bytes per `read` call (a legitimate `io::Read`)
struct ChunkReader<'a> {
    data: &'a [u8],
    pos: usize,
    k: usize,
}
impl io::Read for ChunkReader<'_> {
    fn read(&mut self, buf: &mut [u8]) -> io::Result<usize> {
        let n = buf.len().min(self.k).min(self.data.len() - self.pos);
        buf[..n].copy_from_slice(&self.data[self.pos..self.pos + n]);
        self.pos += n;
        Ok(n)
    }
}
/// writer that accepts at most `k` bytes per `write` call (a legitimate `io::Write`)
struct ShortWriter {
    out: Vec<u8>,
    k: usize,
}
impl io::Write for ShortWriter {
    fn write(&mut self, b: &[u8]) -> io::Result<usize> {
        let n = b.len().min(self.k);
        self.out.extend_from_slice(&b[..n]);
        Ok(n)
    }
    fn flush(&mut self) -> io::Result<()> {
        Ok(())
    }
}

/// The codec is generic over `io::Read` / `io::Write`: the same bytes must come out of / go into
/// (a) a reader that returns short reads, (b) one reader holding two encodings back to back,
/// (c) a writer that takes short writes. `bytes` is the encoding of `v` already checked.
fn io_variants<T: Encodable + Decodable + PartialEq + Debug>(name: &str, v: &T, bytes: &[u8]) -> R {
    let len = bytes.len();
    let k = if len > 20_000 { [7usize, 64, 4099][len % 3] } else { [1usize, 7, 64][len % 3] };
    // (a) short reads
    let mut rd = ChunkReader { data: bytes, pos: 0, k };
    let r = guard::guard("consensus_decode(short reads)", len, || T::consensus_decode(&mut rd))?;
    match r {
        Ok(b) => {
            ensure!(&b == v, "{}: decoding from a reader that returns at most {} bytes per read gives a different value\n v={:?}\n back={:?}", name, k, v, b);
            ensure!(rd.pos == len, "{}: decoding from a reader with short reads consumed {} of {} bytes", name, rd.pos, len);
        }
        Err(e) => fail!("{}: decoding its own encoding from a reader that returns at most {} bytes per read failed: {} ({} bytes)", name, k, e, len),
    }
    // (b) two values one after the other from the same reader
    if len <= 2_000_000 {
        let mut two = bytes.to_vec();
        two.extend_from_slice(bytes);
        let mut cur = io::Cursor::new(&two[..]);
        let r = guard::guard("consensus_decode(two in a row)", two.len(), || {
            let a = T::consensus_decode(&mut cur);
            let p1 = cur.position();
            let b = T::consensus_decode(&mut cur);
            (a, p1, b, cur.position())
        })?;
        match r {
            (Ok(a), p1, Ok(b), p2) => {
                ensure!(p1 as usize == len && p2 as usize == 2 * len, "{}: decoding two concatenated encodings of {} bytes left the reader at {} and {} (read-ahead or under-read)", name, len, p1, p2);
                ensure!(&a == v && &b == v, "{}: decoding two concatenated encodings from one reader gives different values", name);
            }
            (Err(e), _, _, _) => fail!("{}: first of two concatenated encodings rejected: {}", name, e),
            (_, p1, Err(e), _) => fail!("{}: second of two concatenated encodings rejected: {} (reader at {} after the first, encoding has {} bytes)", name, e, p1, len),
        }
    }
    // (c) short writes
    let mut w = ShortWriter { out: Vec::with_capacity(len), k };
    let r = guard::guard("consensus_encode(short writes)", len, || v.consensus_encode(&mut w))?;
    match r {
        Ok(n) => {
            ensure!(w.out == bytes, "{}: encoding into a writer that accepts at most {} bytes per write produced different bytes ({} instead of {})", name, k, w.out.len(), len);
            ensure!(n == len, "{}: consensus_encode into a writer with short writes reported {} bytes, wrote {}", name, n, len);
        }
        Err(e) => fail!("{}: consensus_encode into a writer with short writes failed: {}", name, e),
    }
    Ok(())
}

/// value -> bytes -> value, against the reference bytes
pub fn roundtrip_value<T: Encodable + Decodable + PartialEq + Debug>(
    name: &str,
    v: &T,
    want: Option<&[u8]>,
    junk: &[u8],
    ctx: &mut Ctx,
) -> Result<Vec<u8>, Failure> {
    let bytes = guard::guard("serialize", 0, || serialize(v))?;
    ctx.eval();
    if let Some(w) = want {
        if bytes != w {
            let at = bytes.iter().zip(w.iter()).position(|(a, b)| a != b).unwrap_or(bytes.len().min(w.len()));
            let from = at.saturating_sub(16);
            return Err(Failure::new(format!(
                "{}: serialize differs from the reference encoding (lib {} bytes, reference {} bytes, first difference at offset {})\n lib[{}..]={}\n ref[{}..]={}\n value={:?}",
                name,
                bytes.len(),
                w.len(),
                at,
                from,
                hex(&bytes[from.min(bytes.len())..(from + 200).min(bytes.len())]),
                from,
                hex(&w[from.min(w.len())..(from + 200).min(w.len())]),
                v
            )));
        }
    }
    let mut cw = CountingWriter(0);
    let reported = guard::guard("consensus_encode", 0, || v.consensus_encode(&mut cw))?;
    match reported {
        Ok(n) => {
            ensure!(
                n == cw.0 && n == bytes.len(),
                "{}: consensus_encode reported {} bytes, wrote {}, serialize gives {} ({:?})",
                name,
                n,
                cw.0,
                bytes.len(),
                v
            );
        }
        Err(e) => fail!("{}: consensus_encode to an infallible writer failed: {}", name, e),
    }
    let back = guard::guard("deserialize", bytes.len(), || deserialize::<T>(&bytes))?;
    match back {
        Ok(b) => ensure!(&b == v, "{}: deserialize(serialize(v)) != v\n v={:?}\n back={:?}", name, v, b),
        Err(e) => fail!("{}: own encoding rejected: {} ({} bytes starting {}, value {:?})", name, e, bytes.len(), hex(&bytes[..bytes.len().min(96)]), v),
    }
    io_variants(name, v, &bytes)?;
    if !junk.is_empty() {
        let mut ext = bytes.clone();
        ext.extend_from_slice(junk);
        match guard::guard("deserialize_partial", ext.len(), || deserialize_partial::<T>(&ext))? {
            Ok((b, n)) => {
                ensure!(n == bytes.len(), "{}: deserialize_partial consumed {} of an encoding of {} bytes", name, n, bytes.len());
                ensure!(&b == v, "{}: deserialize_partial value differs", name);
            }
            Err(e) => fail!("{}: deserialize_partial rejected a valid encoding followed by junk: {}", name, e),
        }
        match guard::guard("deserialize", ext.len(), || deserialize::<T>(&ext))? {
            Ok(_) => fail!("{}: deserialize accepted {} trailing bytes", name, junk.len()),
            Err(_) => {}
        }
    }
    Ok(bytes)
}

/// bytes accepted => re-encoding reproduces exactly these bytes (implies full consumption, one
/// encoding per value, rejection of every non-canonical form), the encoder reports that length,
/// and the re-encoding decodes back to an equal value. Ok(Ok(value)) when accepted,
/// Ok(Err(error kind)) when rejected.
fn accept_core<T: Encodable + Decodable + PartialEq + Debug>(name: &str, b: &[u8], ctx: &mut Ctx) -> Result<Result<T, String>, Failure> {
    ctx.eval();
    match guard::guard("deserialize", b.len(), || deserialize::<T>(b))? {
        Err(e) => Ok(Err(err_kind(&e))),
        Ok(v) => {
            let re = guard::guard("serialize", b.len(), || serialize(&v))?;
            if re != b {
                let at = b.iter().zip(re.iter()).position(|(x, y)| x != y).unwrap_or(b.len().min(re.len()));
                let from = at.saturating_sub(16);
                let win = |s: &[u8]| hex(&s[from.min(s.len())..(from + 160).min(s.len())]);
                return Err(Failure::new(format!(
                    "{}: decoder accepted bytes that do not re-encode to themselves (input {} bytes, re-encoding {} bytes, first difference at offset {})\n input[{}..] ={}\n reenc[{}..] ={}\n input starts {}\n value={:?}",
                    name,
                    b.len(),
                    re.len(),
                    at,
                    from,
                    win(b),
                    from,
                    win(&re),
                    hex(&b[..b.len().min(64)]),
                    v
                )));
            }
            // "the length reported by the encoder equals the number of bytes written" for decoder-made values
            let mut cw = CountingWriter(0);
            match guard::guard("consensus_encode", b.len(), || v.consensus_encode(&mut cw))? {
                Ok(n) => ensure!(
                    n == cw.0 && n == re.len(),
                    "{}: consensus_encode of a decoded value reported {} bytes, wrote {}, serialize gives {}",
                    name,
                    n,
                    cw.0,
                    re.len()
                ),
                Err(e) => fail!("{}: consensus_encode of a decoded value to an infallible writer failed: {}", name, e),
            }
            match guard::guard("deserialize", re.len(), || deserialize::<T>(&re))? {
                Ok(v2) => ensure!(v2 == v, "{}: decode(encode(decode(b))) != decode(b)", name),
                Err(e) => fail!("{}: re-encoding of an accepted value is rejected: {}", name, e),
            }
            Ok(Ok(v))
        }
    }
}

/// `accept_core`; returns Some(error kind) when rejected.
pub fn accept_implies_canonical<T: Encodable + Decodable + PartialEq + Debug>(
    name: &str,
    b: &[u8],
    ctx: &mut Ctx,
) -> Result<Option<String>, Failure> {
    Ok(accept_core::<T>(name, b, ctx)?.err())
}

/// `accept_core` plus: the *reference* encoder renders the decoded value to the same bytes (turns
/// every accepted mutant into a differential case, also for shapes only mutants reach)
fn accept_ref<T: Encodable + Decodable + PartialEq + Debug>(
    name: &str,
    b: &[u8],
    ctx: &mut Ctx,
    refenc: impl Fn(&mut Vec<u8>, &T),
) -> Result<Option<String>, Failure> {
    match accept_core::<T>(name, b, ctx)? {
        Err(k) => Ok(Some(k)),
        Ok(v) => {
            let mut w = Vec::with_capacity(b.len());
            refenc(&mut w, &v);
            if w != b {
                return Err(Failure::new(format!(
                    "{}: accepted bytes re-encode to themselves but the reference encoder renders the decoded value differently\n input={}\n ref  ={}\n value={:?}",
                    name,
                    hex(b),
                    hex(&w),
                    v
                )));
            }
            Ok(None)
        }
    }
}

/// histogram label of a decode error: the variant name (read off the `Debug` rendering, so that a
/// library change that adds / renames error variants does not break the build of the harness),
/// with the reason for `ParseFailed`
fn err_kind(e: &elements::encode::Error) -> String {
    let d = format!("{:?}", e);
    let head: String = d.chars().take_while(|c| c.is_ascii_alphanumeric() || *c == '_').collect();
    if head == "ParseFailed" {
        let reason: String = d.chars().filter(|c| *c != '"').take(100).collect();
        return reason;
    }
    if head.is_empty() {
        "Other".into()
    } else {
        head
    }
}

pub const TYPES: &[&str] = &[
    "Transaction", "TxIn", "TxOut", "TxInWitness", "TxOutWitness", "Block", "BlockHeader", "Params", "FullParams",
    "Asset", "Value", "Nonce", "AssetIssuance", "OutPoint", "Script", "LockTime", "Sequence", "Txid", "BlockHash",
    "AssetId",
];

/// A generated canonical value with its reference encoding and layout
pub enum AnyVal {
    Tx(Transaction),
    TxIn(TxIn),
    TxOut(TxOut),
    InWit(TxInWitness),
    OutWit(TxOutWitness),
    Block(Block),
    Header(BlockHeader),
    Params(dynafed::Params),
    FullParams(dynafed::FullParams),
    Asset(Asset),
    Value(Value),
    Nonce(Nonce),
    Issuance(AssetIssuance),
    OutPoint(OutPoint),
    Script(Script),
    LockTime(LockTime),
    Sequence(Sequence),
    Txid(Txid),
    BlockHash(BlockHash),
    AssetId(elements::AssetId),
}

pub fn gen_any(t: &mut Tape, ty: usize) -> AnyVal {
    let o = TxOpts::default();
    let alone = TxOpts { witness: false, ..o };
    match ty {
        0 => AnyVal::Tx(gen::gen_tx(t, &o)),
        1 => AnyVal::TxIn(gen::gen_txin(t, &alone)),
        2 => AnyVal::TxOut(gen::gen_txout(t, &alone)),
        3 => AnyVal::InWit(gen::gen_in_witness(t, true)),
        4 => AnyVal::OutWit(gen::gen_out_witness(t)),
        5 => AnyVal::Block(gen::gen_block(t)),
        6 => AnyVal::Header(gen::gen_header(t)),
        7 => AnyVal::Params(gen::gen_params(t)),
        8 => AnyVal::FullParams(gen::gen_full_params(t)),
        9 => AnyVal::Asset(gen::gen_asset(t)),
        10 => AnyVal::Value(gen::gen_value(t)),
        11 => AnyVal::Nonce(gen::gen_nonce(t)),
        12 => AnyVal::Issuance(if t.chance(30) { AssetIssuance::null() } else { gen::gen_issuance_nonnull(t) }),
        13 => AnyVal::OutPoint(OutPoint { txid: gen::gen_txid(t), vout: t.edgy_u32() }),
        14 => AnyVal::Script(gen::gen_script(t, true)),
        15 => AnyVal::LockTime(gen::gen_locktime(t)),
        16 => AnyVal::Sequence(Sequence(t.edgy_u32())),
        17 => AnyVal::Txid(gen::gen_txid(t)),
        18 => AnyVal::BlockHash(BlockHash::from_byte_array(t.arr32())),
        _ => AnyVal::AssetId(gen::gen_asset_id(t)),
    }
}

impl AnyVal {
    pub fn ref_encode(&self) -> (Vec<u8>, enc::Layout) {
        enc::with_layout(|| {
            let mut out = Vec::new();
            match self {
                AnyVal::Tx(v) => enc::tx(&mut out, v, true),
                AnyVal::TxIn(v) => enc::txin(&mut out, v),
                AnyVal::TxOut(v) => enc::txout(&mut out, v),
                AnyVal::InWit(v) => enc::in_witness(&mut out, v),
                AnyVal::OutWit(v) => enc::out_witness(&mut out, v),
                AnyVal::Block(v) => enc::block(&mut out, v),
                AnyVal::Header(v) => enc::header(&mut out, v, false),
                AnyVal::Params(v) => enc::params(&mut out, v),
                AnyVal::FullParams(v) => enc::full_params(&mut out, v),
                AnyVal::Asset(v) => enc::asset(&mut out, v),
                AnyVal::Value(v) => enc::value(&mut out, v),
                AnyVal::Nonce(v) => enc::nonce(&mut out, v),
                AnyVal::Issuance(v) => enc::issuance(&mut out, v),
                AnyVal::OutPoint(v) => enc::outpoint(&mut out, v),
                AnyVal::Script(v) => enc::var_bytes(&mut out, v.as_bytes()),
                AnyVal::LockTime(v) => out.extend_from_slice(&v.to_consensus_u32().to_le_bytes()),
                AnyVal::Sequence(v) => out.extend_from_slice(&v.0.to_le_bytes()),
                AnyVal::Txid(v) => out.extend_from_slice(&v.to_byte_array()),
                AnyVal::BlockHash(v) => out.extend_from_slice(&v.to_byte_array()),
                AnyVal::AssetId(v) => out.extend_from_slice(&v.to_byte_array()),
            }
            out
        })
    }
    pub fn type_index(&self) -> usize {
        match self {
            AnyVal::Tx(_) => 0,
            AnyVal::TxIn(_) => 1,
            AnyVal::TxOut(_) => 2,
            AnyVal::InWit(_) => 3,
            AnyVal::OutWit(_) => 4,
            AnyVal::Block(_) => 5,
            AnyVal::Header(_) => 6,
            AnyVal::Params(_) => 7,
            AnyVal::FullParams(_) => 8,
            AnyVal::Asset(_) => 9,
            AnyVal::Value(_) => 10,
            AnyVal::Nonce(_) => 11,
            AnyVal::Issuance(_) => 12,
            AnyVal::OutPoint(_) => 13,
            AnyVal::Script(_) => 14,
            AnyVal::LockTime(_) => 15,
            AnyVal::Sequence(_) => 16,
            AnyVal::Txid(_) => 17,
            AnyVal::BlockHash(_) => 18,
            AnyVal::AssetId(_) => 19,
        }
    }
    pub fn features(&self) -> Vec<&'static str> {
        match self {
            AnyVal::Tx(tx) => gen::tx_features(tx),
            AnyVal::Block(b) => {
                let mut f = header_features(&b.header);
                if b.txdata.len() >= 0xfd {
                    f.push("count>=0xfd");
                }
                for t in &b.txdata {
                    f.extend(gen::tx_features(t));
                }
                f.sort();
                f.dedup();
                f
            }
            AnyVal::Header(h) => header_features(h),
            AnyVal::TxIn(i) => {
                let mut f = vec![];
                if i.is_pegin {
                    f.push("pegin");
                }
                if i.has_issuance() {
                    f.push("issuance");
                }
                if i.previous_output.vout == u32::MAX {
                    f.push("coinbase-index");
                }
                if i.script_sig.len() >= 0xfd {
                    f.push("script>=0xfd");
                }
                f
            }
            AnyVal::TxOut(o) => {
                let mut f = vec![];
                if o.asset.v_conf() || o.value.v_conf() || o.nonce.v_conf() {
                    f.push("confidential");
                }
                if o.script_pubkey.len() >= 0xfd {
                    f.push("script>=0xfd");
                }
                f
            }
            AnyVal::InWit(w) => {
                if w.is_empty() {
                    vec![]
                } else {
                    vec!["in-witness"]
                }
            }
            AnyVal::OutWit(w) => {
                if w.is_empty() {
                    vec![]
                } else {
                    vec!["out-witness"]
                }
            }
            AnyVal::Params(p) => {
                if p.is_null() {
                    vec![]
                } else {
                    vec!["dynafed"]
                }
            }
            AnyVal::FullParams(_) => vec!["dynafed"],
            AnyVal::Asset(a) => {
                if a.v_conf() {
                    vec!["confidential"]
                } else {
                    vec![]
                }
            }
            AnyVal::Value(a) => {
                if a.v_conf() {
                    vec!["confidential"]
                } else {
                    vec![]
                }
            }
            AnyVal::Nonce(a) => {
                if a.v_conf() {
                    vec!["confidential"]
                } else {
                    vec![]
                }
            }
            AnyVal::Issuance(i) => {
                if i.is_null() {
                    vec![]
                } else {
                    vec!["issuance"]
                }
            }
            AnyVal::Script(s) => {
                if s.len() >= 0xfd {
                    vec!["script>=0xfd"]
                } else {
                    vec![]
                }
            }
            _ => vec![],
        }
    }
}

fn header_features(h: &BlockHeader) -> Vec<&'static str> {
    match &h.ext {
        elements::BlockExtData::Proof { .. } => vec!["proof-header"],
        elements::BlockExtData::Dynafed { current, proposed, signblock_witness } => {
            let mut f = vec!["dynafed"];
            for p in [current, proposed] {
                f.push(match p {
                    dynafed::Params::Null => "params-null",
                    dynafed::Params::Compact { .. } => "params-compact",
                    dynafed::Params::Full(_) => "params-full",
                });
            }
            if !signblock_witness.is_empty() {
                f.push("signblock-witness");
            }
            f
        }
    }
}

macro_rules! dispatch_any {
    ($any:expr, $v:ident => $body:expr) => {
        match $any {
            AnyVal::Tx($v) => $body,
            AnyVal::TxIn($v) => $body,
            AnyVal::TxOut($v) => $body,
            AnyVal::InWit($v) => $body,
            AnyVal::OutWit($v) => $body,
            AnyVal::Block($v) => $body,
            AnyVal::Header($v) => $body,
            AnyVal::Params($v) => $body,
            AnyVal::FullParams($v) => $body,
            AnyVal::Asset($v) => $body,
            AnyVal::Value($v) => $body,
            AnyVal::Nonce($v) => $body,
            AnyVal::Issuance($v) => $body,
            AnyVal::OutPoint($v) => $body,
            AnyVal::Script($v) => $body,
            AnyVal::LockTime($v) => $body,
            AnyVal::Sequence($v) => $body,
            AnyVal::Txid($v) => $body,
            AnyVal::BlockHash($v) => $body,
            AnyVal::AssetId($v) => $body,
        }
    };
}

pub fn check_bytes_as(ty: usize, b: &[u8], ctx: &mut Ctx) -> Result<Option<String>, Failure> {
    let n = TYPES[ty];
    match ty {
        0 => accept_ref::<Transaction>(n, b, ctx, |o, v| enc::tx(o, v, true)),
        1 => accept_ref::<TxIn>(n, b, ctx, |o, v| enc::txin(o, v)),
        2 => accept_ref::<TxOut>(n, b, ctx, |o, v| enc::txout(o, v)),
        3 => accept_ref::<TxInWitness>(n, b, ctx, |o, v| enc::in_witness(o, v)),
        4 => accept_ref::<TxOutWitness>(n, b, ctx, |o, v| enc::out_witness(o, v)),
        5 => accept_ref::<Block>(n, b, ctx, |o, v| enc::block(o, v)),
        6 => accept_ref::<BlockHeader>(n, b, ctx, |o, v| enc::header(o, v, false)),
        7 => accept_ref::<dynafed::Params>(n, b, ctx, |o, v| enc::params(o, v)),
        8 => accept_ref::<dynafed::FullParams>(n, b, ctx, |o, v| enc::full_params(o, v)),
        9 => accept_ref::<Asset>(n, b, ctx, |o, v| enc::asset(o, v)),
        10 => accept_ref::<Value>(n, b, ctx, |o, v| enc::value(o, v)),
        11 => accept_ref::<Nonce>(n, b, ctx, |o, v| enc::nonce(o, v)),
        12 => accept_ref::<AssetIssuance>(n, b, ctx, |o, v| enc::issuance(o, v)),
        13 => accept_ref::<OutPoint>(n, b, ctx, |o, v| enc::outpoint(o, v)),
        14 => accept_ref::<Script>(n, b, ctx, |o, v| enc::var_bytes(o, v.as_bytes())),
        15 => accept_ref::<LockTime>(n, b, ctx, |o, v| o.extend_from_slice(&v.to_consensus_u32().to_le_bytes())),
        16 => accept_ref::<Sequence>(n, b, ctx, |o, v| o.extend_from_slice(&v.0.to_le_bytes())),
        17 => accept_ref::<Txid>(n, b, ctx, |o, v| o.extend_from_slice(&v.to_byte_array())),
        18 => accept_ref::<BlockHash>(n, b, ctx, |o, v| o.extend_from_slice(&v.to_byte_array())),
        _ => accept_ref::<elements::AssetId>(n, b, ctx, |o, v| o.extend_from_slice(&v.to_byte_array())),
    }
}

fn pick_type(t: &mut Tape) -> usize {
    // transactions, blocks and headers get most of the weight
    match t.below(16) {
        0..=5 => 0,
        6 => 5,
        7 | 8 => 6,
        9 => 7,
        _ => t.below(TYPES.len()),
    }
}

fn describe(any: &AnyVal, bytes: &[u8]) -> serde_json::Value {
    json!({"type": TYPES[any.type_index()], "features": any.features(), "encoded_len": bytes.len(),
           "encoding_prefix_hex": hex(&bytes[..bytes.len().min(48)])})
}

/// (a) canonical values: serialize == reference bytes, reported length, decode back, partial decode
fn values(t: &mut Tape, ctx: &mut Ctx) -> R {
    let ty = pick_type(t);
    let any = gen_any(t, ty);
    let (want, _) = any.ref_encode();
    let nj = t.below(6);
    let junk = t.bytes(nj);
    let name = TYPES[ty];
    dispatch_any!(&any, v => roundtrip_value(name, v, Some(&want), &junk, ctx))?;
    let feats = any.features();
    ctx.class(&format!("value:{}", name));
    for f in &feats {
        ctx.class(&format!("feature:{}", f));
    }
    if !feats.is_empty() {
        ctx.nontrivial(&(ty, &want));
    }
    let cls = format!("value:{}", name);
    if ctx.wants_sample(&cls) && !feats.is_empty() {
        ctx.sample(&cls, || describe(&any, &want));
    }
    Ok(())
}

/// (b) mutants of valid encodings: accepted => canonical
fn mutants(t: &mut Tape, ctx: &mut Ctx) -> R {
    let ty = pick_type(t);
    let any = gen_any(t, ty);
    let (orig, layout) = any.ref_encode();
    let mut b = orig.clone();
    let nm = 1 + t.below(3);
    let mut ops = Vec::new();
    for _ in 0..nm {
        ops.push(mutate::mutate_once(t, &mut b, &layout));
    }
    if b == orig {
        ctx.class("mutant:no-op");
        return Ok(());
    }
    // decode as the original type and, sometimes, as another type
    let as_ty = if t.chance(24) { t.below(TYPES.len()) } else { ty };
    let res = check_bytes_as(as_ty, &b, ctx)?;
    for op in &ops {
        ctx.class(&format!("op:{}", op));
    }
    match &res {
        None => {
            ctx.class("mutant:accepted(re-encodes identically)");
            ctx.nontrivial(&(as_ty, &b));
            if ctx.wants_sample("mutant-accepted") {
                ctx.sample("mutant-accepted", || json!({"type": TYPES[as_ty], "ops": ops, "mutant_len": b.len(),
                    "mutant_prefix_hex": hex(&b[..b.len().min(48)])}));
            }
        }
        Some(kind) => {
            ctx.class(&format!("mutant:rejected:{}", kind));
            // got past the first field: rejected for a reason other than running out of input at once
            if b.len() > 8 {
                ctx.nontrivial(&(as_ty, &b));
            }
            let cls = format!("mutant-rejected:{}", ops[0]);
            if ctx.wants_sample(&cls) {
                ctx.sample(&cls, || json!({"type": TYPES[as_ty], "ops": ops, "error": kind, "mutant_len": b.len()}));
            }
        }
    }
    Ok(())
}

/// the rejection classes the property names, constructed on purpose; each must be an error
fn noncanonical(t: &mut Tape, ctx: &mut Ctx) -> R {
    let o = TxOpts { big: false, ..TxOpts::default() };
    let mut tx = gen::gen_tx(t, &o);
    let class = t.below(8);
    let name;
    let bytes: Vec<u8> = match class {
        0 => {
            name = "witness-flag-with-all-empty-witnesses";
            for i in &mut tx.input {
                i.witness = TxInWitness::empty();
            }
            for o in &mut tx.output {
                o.witness = TxOutWitness::empty();
            }
            let mut b = enc::tx_full(&tx);
            b[4] = 1;
            for _ in &tx.input {
                b.extend_from_slice(&[0, 0, 0, 0]);
            }
            for _ in &tx.output {
                b.extend_from_slice(&[0, 0]);
            }
            b
        }
        1 => {
            name = "witness-flag-0-but-witness-section-present";
            if !enc::tx_has_witness(&tx) {
                tx.output.push(gen::gen_txout(t, &o));
                let p = gen::pool();
                tx.output.last_mut().unwrap().witness.rangeproof = Some(Box::new(p.rangeproofs[0].clone()));
            }
            let mut b = enc::tx_full(&tx);
            b[4] = 0;
            b
        }
        2 => {
            name = "superfluous-null-issuance";
            if tx.input.is_empty() {
                tx.input.push(gen::gen_txin(t, &o));
            }
            let k = t.below(tx.input.len());
            tx.input[k].asset_issuance = AssetIssuance::null();
            if tx.input[k].previous_output.vout == u32::MAX {
                tx.input[k].previous_output.vout = 0;
            }
            // encode by hand: set the issuance bit and attach a null issuance
            let (b, l) = enc::with_layout(|| enc::tx_full(&tx));
            let start = l.bounds[k];
            let mut b = b;
            b[start + 35] |= 0x80;
            let script_len = tx.input[k].script_sig.len();
            let ins_at = start + 36 + enc::compact_size_len(script_len as u64) + script_len + 4;
            let mut iss = vec![0u8; 64];
            iss.extend_from_slice(&[0, 0]);
            b.splice(ins_at..ins_at, iss);
            b
        }
        3 => {
            name = "non-minimal-varint";
            let (b, l) = enc::with_layout(|| enc::tx_full(&tx));
            let mut b = b;
            let p = l.cs[t.below(l.cs.len())];
            let first = b[p];
            if first >= 0xfd {
                // widen a 3-byte form to the 5-byte form
                let val = u16::from_le_bytes([b[p + 1], b[p + 2]]);
                let mut e = vec![0xfe];
                e.extend_from_slice(&u32::from(val).to_le_bytes());
                b.splice(p..p + 3, e);
            } else {
                let e: Vec<u8> = match t.below(3) {
                    0 => vec![0xfd, first, 0],
                    1 => vec![0xfe, first, 0, 0, 0],
                    _ => vec![0xff, first, 0, 0, 0, 0, 0, 0, 0],
                };
                b.splice(p..p + 1, e);
            }
            b
        }
        4 => {
            name = "trailing-bytes";
            let mut b = enc::tx_full(&tx);
            let n = t.range(1, 5);
            b.extend(t.bytes(n));
            b
        }
        5 => {
            name = "unknown-confidential-prefix";
            if tx.output.is_empty() {
                tx.output.push(gen::gen_txout(t, &o));
            }
            let (b, l) = enc::with_layout(|| enc::tx_full(&tx));
            let mut b = b;
            // prefixes recorded: issuance values, then per output asset, value, nonce
            let p = l.prefixes[t.below(l.prefixes.len())];
            b[p] = t.choose(&[4u8, 5, 6, 7, 0x0c, 0x0d, 0x10, 0x80, 0xff]);
            b
        }
        6 => {
            name = "bad-witness-flag-value";
            let mut b = enc::tx_full(&tx);
            b[4] = t.choose(&[2u8, 3, 0x80, 0xff]);
            b
        }
        _ => {
            name = "truncated";
            let mut b = enc::tx_full(&tx);
            let n = t.below(b.len());
            b.truncate(n);
            b
        }
    };
    ctx.eval();
    let r = guard::guard("deserialize", bytes.len(), || deserialize::<Transaction>(&bytes))?;
    if let Ok(v) = &r {
        // a prefix swap (class 5) may land on another valid prefix only by construction error; all
        // classes here are non-canonical by construction
        let re = serialize(v);
        return Err(Failure::new(format!(
            "non-canonical transaction encoding ({}) was accepted\n input ={}\n reenc ={}",
            name,
            hex(&bytes),
            hex(&re)
        )));
    }
    ctx.class(&format!("noncanonical:{}", name));
    ctx.nontrivial(&(class, &bytes));
    let cls = format!("noncanonical:{}", name);
    if ctx.wants_sample(&cls) {
        let e = r.err().map(|e| e.to_string());
        ctx.sample(&cls, || json!({"class": name, "len": bytes.len(), "error": e}));
    }
    Ok(())
}

// ------------------------------------------------------------------------------------------------
// review g1: big / varied values (ext_g1 generators), plan-first mutants, container rejection
// classes, compact-size boundary table, constructors
// ------------------------------------------------------------------------------------------------

/// container types only; transactions, blocks and headers get most of the weight
fn pick_type_x(t: &mut Tape) -> usize {
    match t.below(16) {
        0..=5 => 0,
        6..=8 => 5,
        9..=11 => 6,
        12 => 7,
        13 => 8,
        _ => 3,
    }
}

/// like `gen_any`, with the extension generators for the container types
pub fn gen_any_x(t: &mut Tape, ty: usize) -> AnyVal {
    let o = TxOpts::default();
    match ty {
        0 => AnyVal::Tx(xg::gen_tx_x(t, &o, xg::LADDER_INOUT)),
        3 => AnyVal::InWit(xg::gen_in_witness_x(t, xg::LADDER_STACK)),
        5 => AnyVal::Block(xg::gen_block_x(t, xg::LADDER_TXS)),
        6 => AnyVal::Header(xg::gen_header_x(t)),
        7 => AnyVal::Params(xg::gen_params_x(t)),
        8 => AnyVal::FullParams(xg::gen_full_params_x(t)),
        _ => gen_any(t, ty),
    }
}

/// one byte vector of 128 KiB .. 4 000 000 bytes (the decoder's bound, inclusive) in every carrier
fn gen_huge(t: &mut Tape) -> (AnyVal, &'static str) {
    let n = t.choose(xg::HUGE_LENS);
    let small = TxOpts { big: false, ..TxOpts::default() };
    match t.below(6) {
        0 => (AnyVal::Script(xg::script_of_len(t, n)), "script"),
        1 => {
            let mut o = gen::gen_txout(t, &TxOpts { witness: false, ..small });
            o.script_pubkey = xg::script_of_len(t, n);
            (AnyVal::TxOut(o), "txout.script_pubkey")
        }
        2 => {
            let mut tx = gen::gen_tx(t, &small);
            if tx.input.is_empty() {
                tx.input.push(gen::gen_txin(t, &small));
            }
            let k = t.below(tx.input.len());
            tx.input[k].script_sig = xg::script_of_len(t, n);
            (AnyVal::Tx(tx), "tx.script_sig")
        }
        3 => {
            let mut tx = gen::gen_tx(t, &small);
            if tx.input.is_empty() {
                tx.input.push(gen::gen_txin(t, &small));
            }
            let k = t.below(tx.input.len());
            let item = t.filler(n);
            if t.bool() {
                tx.input[k].witness.script_witness.push(item);
            } else {
                tx.input[k].witness.pegin_witness.insert(0, item);
            }
            (AnyVal::Tx(tx), "tx.witness-item")
        }
        4 => {
            let mut f = gen::gen_full_params(t);
            f.fedpegscript = t.filler(n);
            (AnyVal::FullParams(f), "params.fedpegscript")
        }
        _ => {
            let mut h = gen::gen_header(t);
            h.ext = elements::BlockExtData::Proof { challenge: gen::gen_script(t, false), solution: xg::script_of_len(t, n) };
            (AnyVal::Header(h), "header.solution")
        }
    }
}

fn features_x(any: &AnyVal) -> Vec<String> {
    match any {
        AnyVal::Tx(tx) => xg::tx_features_x(tx),
        AnyVal::Block(b) => xg::block_features_x(b),
        AnyVal::Header(h) => xg::header_features_x(h),
        AnyVal::Params(p) => xg::params_features_of(p),
        AnyVal::FullParams(f) => {
            let mut v = Vec::new();
            xg::full_params_features(f, &mut v);
            v
        }
        AnyVal::InWit(w) => xg::in_witness_features_x(w),
        _ => vec![],
    }
}

fn len_class(n: usize) -> &'static str {
    match n {
        0..=2999 => "<3000",
        3000..=65535 => "3000..0xffff",
        65536..=999_999 => "0x10000..1M",
        _ => ">=1M",
    }
}

/// (a') like `values`, for what one 3000-byte tape cannot vary: long header / parameter fields,
/// every count class, elements varied at every index, byte vectors up to the decoder's bound.
/// The junk suffix is drawn *before* the value so that big values get one too.
fn big_values(t: &mut Tape, ctx: &mut Ctx) -> R {
    let nj = t.below(6);
    let junk5 = t.bytes(5);
    let junk = &junk5[..nj];
    let huge = t.chance(2);
    let (any, carrier) = if huge {
        gen_huge(t)
    } else {
        let ty = pick_type_x(t);
        (gen_any_x(t, ty), "")
    };
    let ty = any.type_index();
    let (want, _) = any.ref_encode();
    let name = TYPES[ty];
    dispatch_any!(&any, v => roundtrip_value(name, v, Some(&want), junk, ctx))?;
    ctx.class(&format!("xvalue:{}", name));
    ctx.class(&format!("xvalue:encoded-len:{}", len_class(want.len())));
    if huge {
        ctx.class(&format!("xvalue:huge:{}", carrier));
    }
    if !junk.is_empty() && want.len() >= 3000 {
        ctx.class("xvalue:junk-after-encoding>=3000-bytes");
    }
    let feats = features_x(&any);
    for f in &feats {
        ctx.class(&format!("x:{}", f));
    }
    if !feats.is_empty() || huge {
        ctx.nontrivial(&(ty, &want));
        let cls = format!("xvalue:{}", name);
        if ctx.wants_sample(&cls) {
            ctx.sample(&cls, || json!({"type": name, "x_features": feats, "encoded_len": want.len()}));
        }
    }
    Ok(())
}

/// (b') like `mutants`, with the mutation plan drawn *before* the value (so that it does not
/// collapse to "flip bit 0 of byte 0" when a big value has used up the tape) and on the big /
/// varied values of `big_values`
fn big_mutants(t: &mut Tape, ctx: &mut Ctx) -> R {
    let plan = xg::plan_tape(t, 24, 72);
    let ty = pick_type_x(t);
    let any = gen_any_x(t, ty);
    let (orig, layout) = any.ref_encode();
    let mut pt = Tape::new(&plan);
    let mut b = orig.clone();
    let nm = 1 + pt.below(3);
    let mut ops = Vec::new();
    for _ in 0..nm {
        ops.push(mutate::mutate_once(&mut pt, &mut b, &layout));
    }
    if b == orig {
        ctx.class("xmutant:no-op");
        return Ok(());
    }
    let as_ty = if pt.chance(24) { pt.below(TYPES.len()) } else { ty };
    let res = check_bytes_as(as_ty, &b, ctx)?;
    for op in &ops {
        ctx.class(&format!("xop:{}", op));
    }
    let first_diff = orig.iter().zip(b.iter()).position(|(x, y)| x != y).unwrap_or(orig.len().min(b.len()));
    ctx.class(&format!("xmutant:first-difference-at:{}", len_class(first_diff)));
    ctx.class(&format!("xmutant:encoded-len:{}", len_class(orig.len())));
    match &res {
        None => {
            ctx.class("xmutant:accepted(re-encodes identically, reference agrees)");
            ctx.nontrivial(&(as_ty, &b));
        }
        Some(kind) => {
            ctx.class(&format!("xmutant:rejected:{}", kind));
            if b.len() > 8 {
                ctx.nontrivial(&(as_ty, &b));
            }
            let cls = format!("xmutant-rejected:{}", ops[0]);
            if ctx.wants_sample(&cls) {
                ctx.sample(&cls, || json!({"type": TYPES[as_ty], "ops": ops, "error": kind, "mutant_len": b.len(), "first_difference_at": first_diff}));
            }
        }
    }
    Ok(())
}

/// a transaction encoding that no decoder may accept, for embedding into a block;
/// kinds 0..2 fail inside the transaction itself, wherever it stands
fn bad_tx_bytes(t: &mut Tape, kind: usize) -> (&'static str, Vec<u8>) {
    let o = TxOpts { big: false, max_in: 2, max_out: 2, ..TxOpts::default() };
    let mut tx = gen::gen_tx(t, &o);
    match kind {
        0 => {
            for i in &mut tx.input {
                i.witness = TxInWitness::empty();
            }
            for o in &mut tx.output {
                o.witness = TxOutWitness::empty();
            }
            let mut b = enc::tx_full(&tx);
            b[4] = 1;
            for _ in &tx.input {
                b.extend_from_slice(&[0, 0, 0, 0]);
            }
            for _ in &tx.output {
                b.extend_from_slice(&[0, 0]);
            }
            ("block-tx:witness-flag-with-all-empty-witnesses", b)
        }
        1 => {
            if tx.input.is_empty() {
                tx.input.push(gen::gen_txin(t, &o));
            }
            let k = t.below(tx.input.len());
            tx.input[k].asset_issuance = AssetIssuance::null();
            let v = tx.input[k].previous_output.vout;
            if v == u32::MAX || v == 0x3fff_ffff {
                // keep clear of the flag-exempt index 0xffffffff (also as 2^30-1 plus both flags)
                tx.input[k].previous_output.vout = 0;
            }
            let (b, l) = enc::with_layout(|| enc::tx_full(&tx));
            let start = l.bounds[k];
            let mut b = b;
            b[start + 35] |= 0x80;
            let script_len = tx.input[k].script_sig.len();
            let ins_at = start + 36 + enc::compact_size_len(script_len as u64) + script_len + 4;
            b.splice(ins_at..ins_at, vec![0u8; 66]);
            ("block-tx:superfluous-null-issuance", b)
        }
        _ => {
            let mut b = enc::tx_full(&tx);
            b[4] = t.choose(&[2u8, 3, 0x80, 0xff]);
            ("block-tx:bad-witness-flag-value", b)
        }
    }
}

/// rejection classes of the statement inside the *containers* (`noncanonical` builds them for a
/// stand-alone transaction only): each string must be an error
fn noncanonical_containers(t: &mut Tape, ctx: &mut Ctx) -> R {
    let class = t.below(8);
    let name: &'static str;
    // 0: Block, 1: BlockHeader, 2: Params, 3: FullParams
    let as_ty: usize;
    let bytes: Vec<u8> = match class {
        0..=3 => {
            as_ty = 0;
            let header = gen::gen_header(t);
            let n = 1 + t.below(4);
            let o = TxOpts { big: false, max_in: 2, max_out: 2, ..TxOpts::default() };
            let mut out = Vec::new();
            enc::header(&mut out, &header, false);
            enc::compact_size(&mut out, n as u64);
            if class == 3 {
                // flag 0 although a witness section follows: in the *last* transaction of the block the
                // section is left over as trailing bytes
                name = "block-tx:witness-flag-0-but-witness-section-present(last tx)";
                for _ in 0..n - 1 {
                    out.extend(enc::tx_full(&gen::gen_tx(t, &o)));
                }
                let mut tx = gen::gen_tx(t, &o);
                if !enc::tx_has_witness(&tx) {
                    tx.output.push(gen::gen_txout(t, &o));
                    if let Some(l) = tx.output.last_mut() {
                        l.witness.rangeproof = Some(Box::new(gen::pool().rangeproofs[0].clone()));
                    }
                }
                let mut b = enc::tx_full(&tx);
                b[4] = 0;
                out.extend(b);
            } else {
                let k = t.below(n);
                let mut nm = "";
                for i in 0..n {
                    if i == k {
                        let (s, b) = bad_tx_bytes(t, class);
                        nm = s;
                        out.extend(b);
                    } else {
                        out.extend(enc::tx_full(&gen::gen_tx(t, &o)));
                    }
                }
                name = nm;
            }
            out
        }
        4 | 5 => {
            // unknown dynafed parameter tag, in a header (stand-alone or in a block) or stand-alone
            let mut h = gen::gen_header(t);
            let which = t.bool();
            let tag = 3 + t.below(253) as u8;
            let cur = gen::gen_params(t);
            if class == 5 {
                as_ty = 2;
                name = "params:unknown-tag";
                let mut b = Vec::new();
                enc::params(&mut b, &cur);
                b[0] = tag;
                b
            } else {
                let prop = gen::gen_params(t);
                h.ext = elements::BlockExtData::Dynafed { current: cur.clone(), proposed: prop, signblock_witness: vec![] };
                let mut b = Vec::new();
                enc::header(&mut b, &h, false);
                let mut cb = Vec::new();
                enc::params(&mut cb, &cur);
                // fixed part: version, prev, merkle root, time, height
                let at = if which { 76 } else { 76 + cb.len() };
                b[at] = tag;
                if t.bool() {
                    as_ty = 1;
                    name = "header:unknown-params-tag";
                } else {
                    as_ty = 0;
                    name = "block:unknown-params-tag-in-header";
                    b.push(0); // no transactions
                }
                b
            }
        }
        6 => {
            // trailing bytes after a complete container
            let nj = t.range(1, 5);
            let junk = t.bytes(nj);
            let mut b = Vec::new();
            match t.below(4) {
                0 => {
                    as_ty = 0;
                    name = "block:trailing-bytes";
                    enc::block(&mut b, &gen::gen_block(t));
                }
                1 => {
                    as_ty = 1;
                    name = "header:trailing-bytes";
                    enc::header(&mut b, &gen::gen_header(t), false);
                }
                2 => {
                    as_ty = 2;
                    name = "params:trailing-bytes";
                    enc::params(&mut b, &gen::gen_params(t));
                }
                _ => {
                    as_ty = 3;
                    name = "full-params:trailing-bytes";
                    enc::full_params(&mut b, &gen::gen_full_params(t));
                }
            }
            b.extend(junk);
            b
        }
        _ => {
            // the transaction count of a block in a non-minimal form
            as_ty = 0;
            name = "block:non-minimal-tx-count";
            let blk = gen::gen_block(t);
            let mut b = Vec::new();
            enc::header(&mut b, &blk.header, false);
            let n = blk.txdata.len() as u64;
            match t.below(3) {
                0 if n <= 0xfc => {
                    b.push(0xfd);
                    b.extend_from_slice(&(n as u16).to_le_bytes());
                }
                1 => {
                    b.push(0xfe);
                    b.extend_from_slice(&(n as u32).to_le_bytes());
                }
                _ => {
                    b.push(0xff);
                    b.extend_from_slice(&n.to_le_bytes());
                }
            }
            for tx in &blk.txdata {
                enc::tx(&mut b, tx, true);
            }
            b
        }
    };
    ctx.eval();
    let (accepted, err): (bool, Option<String>) = match as_ty {
        0 => {
            let r = guard::guard("deserialize", bytes.len(), || deserialize::<Block>(&bytes))?;
            (r.is_ok(), r.err().map(|e| e.to_string()))
        }
        1 => {
            let r = guard::guard("deserialize", bytes.len(), || deserialize::<BlockHeader>(&bytes))?;
            (r.is_ok(), r.err().map(|e| e.to_string()))
        }
        2 => {
            let r = guard::guard("deserialize", bytes.len(), || deserialize::<dynafed::Params>(&bytes))?;
            (r.is_ok(), r.err().map(|e| e.to_string()))
        }
        _ => {
            let r = guard::guard("deserialize", bytes.len(), || deserialize::<dynafed::FullParams>(&bytes))?;
            (r.is_ok(), r.err().map(|e| e.to_string()))
        }
    };
    ensure!(!accepted, "non-canonical {} encoding ({}) was accepted\n input ={}", ["Block", "BlockHeader", "Params", "FullParams"][as_ty], name, hex(&bytes));
    let cls = format!("noncanonical:{}", name);
    ctx.class(&cls);
    ctx.nontrivial(&(class, &bytes));
    if ctx.wants_sample(&cls) {
        ctx.sample(&cls, || json!({"class": name, "len": bytes.len(), "error": err}));
    }
    Ok(())
}

// ---- compact-size boundary table -------------------------------------------------------------

const VB_VALUES: [usize; 4] = [0xfc, 0xfd, 0xffff, 0x10000];
const VB_CARRIERS: &[&str] = &[
    "tx.input.script_sig length",
    "tx.output.script_pubkey length",
    "tx.input.script_witness item length",
    "tx.input.script_witness count",
    "tx.input.pegin_witness count",
    "tx.input.pegin_witness item length",
    "tx input count",
    "tx output count",
    "tx.output.rangeproof length",
    "tx.input.amount_rangeproof length",
    "block transaction count",
    "header challenge length",
    "header solution length",
    "header signblock_witness count",
    "header signblock_witness item length",
    "header compact-params signblockscript length",
    "full-params signblockscript length",
    "full-params fedpeg_program length",
    "full-params fedpegscript length",
    "full-params extension_space count",
    "full-params extension_space item length",
    "stand-alone script length",
    "stand-alone txout script_pubkey length",
    "stand-alone txin script_sig length",
    "stand-alone input witness script_witness count",
];

fn vb_fill(n: usize) -> Vec<u8> {
    (0..n).map(|i| (i as u8).wrapping_mul(31).wrapping_add(7)).collect()
}
fn vb_in() -> TxIn {
    TxIn {
        previous_output: OutPoint { txid: Txid::from_byte_array([0x11; 32]), vout: 1 },
        is_pegin: false,
        script_sig: Script::new(),
        sequence: Sequence(0xffff_fffe),
        asset_issuance: AssetIssuance {
            asset_blinding_nonce: elements::secp256k1_zkp::ZERO_TWEAK,
            asset_entropy: [0; 32],
            amount: Value::Null,
            inflation_keys: Value::Null,
        },
        witness: TxInWitness { amount_rangeproof: None, inflation_keys_rangeproof: None, script_witness: vec![], pegin_witness: vec![] },
    }
}
fn vb_out() -> TxOut {
    TxOut {
        asset: Asset::Null,
        value: Value::Null,
        nonce: Nonce::Null,
        script_pubkey: Script::new(),
        witness: TxOutWitness { surjection_proof: None, rangeproof: None },
    }
}
fn vb_tx(input: Vec<TxIn>, output: Vec<TxOut>) -> Transaction {
    Transaction { version: 2, lock_time: LockTime::from_consensus(0), input, output }
}
fn vb_header(ext: elements::BlockExtData) -> BlockHeader {
    BlockHeader {
        version: 1,
        prev_blockhash: BlockHash::from_byte_array([0x22; 32]),
        merkle_root: elements::TxMerkleNode::from_byte_array([0x33; 32]),
        time: 0,
        height: 0,
        ext,
    }
}
fn vb_full(sbs: usize, fp: usize, fps: usize, ext: Vec<Vec<u8>>) -> dynafed::FullParams {
    dynafed::FullParams::new(
        Script::from(vb_fill(sbs)),
        0,
        elements::bitcoin::ScriptBuf::from_bytes(vb_fill(fp)),
        vb_fill(fps),
        ext,
    )
}
fn vb_proof(n: usize) -> Option<Box<elements::secp256k1_zkp::RangeProof>> {
    xg::boundary_rangeproofs().iter().find(|p| p.serialize().len() == n).map(|p| Box::new(p.clone()))
}

/// a value in which exactly the carrier `c` has length / count `n`, everything else being 0 or 1;
/// None where the unchanged decoder's allocation bound (count * size_of::<T>() <= 4 000 000) does
/// not admit `n` elements of that type, or no such proof exists
fn vb_build(c: usize, n: usize) -> Option<AnyVal> {
    use elements::BlockExtData as X;
    let count_ok = n <= 0xfd;
    Some(match c {
        0 => {
            let mut i = vb_in();
            i.script_sig = Script::from(vb_fill(n));
            AnyVal::Tx(vb_tx(vec![i], vec![vb_out()]))
        }
        1 => {
            let mut o = vb_out();
            o.script_pubkey = Script::from(vb_fill(n));
            AnyVal::Tx(vb_tx(vec![vb_in()], vec![o]))
        }
        2 => {
            let mut i = vb_in();
            i.witness.script_witness = vec![vb_fill(n)];
            AnyVal::Tx(vb_tx(vec![i], vec![vb_out()]))
        }
        3 => {
            let mut i = vb_in();
            i.witness.script_witness = vec![vec![]; n];
            AnyVal::Tx(vb_tx(vec![i], vec![vb_out()]))
        }
        4 => {
            let mut i = vb_in();
            i.witness.pegin_witness = vec![vec![]; n];
            AnyVal::Tx(vb_tx(vec![i], vec![vb_out()]))
        }
        5 => {
            let mut i = vb_in();
            i.witness.pegin_witness = vec![vb_fill(n)];
            AnyVal::Tx(vb_tx(vec![i], vec![vb_out()]))
        }
        6 if count_ok => AnyVal::Tx(vb_tx(vec![vb_in(); n], vec![vb_out()])),
        7 if count_ok => AnyVal::Tx(vb_tx(vec![vb_in()], vec![vb_out(); n])),
        8 => {
            let mut o = vb_out();
            o.witness.rangeproof = Some(vb_proof(n)?);
            AnyVal::Tx(vb_tx(vec![vb_in()], vec![o]))
        }
        9 => {
            let mut i = vb_in();
            i.witness.amount_rangeproof = Some(vb_proof(n)?);
            AnyVal::Tx(vb_tx(vec![i], vec![vb_out()]))
        }
        10 if count_ok => AnyVal::Block(Block {
            header: vb_header(X::Proof { challenge: Script::new(), solution: Script::new() }),
            txdata: vec![vb_tx(vec![], vec![]); n],
        }),
        11 => AnyVal::Header(vb_header(X::Proof { challenge: Script::from(vb_fill(n)), solution: Script::new() })),
        12 => AnyVal::Header(vb_header(X::Proof { challenge: Script::new(), solution: Script::from(vb_fill(n)) })),
        13 => AnyVal::Header(vb_header(X::Dynafed {
            current: dynafed::Params::Null,
            proposed: dynafed::Params::Null,
            signblock_witness: vec![vec![]; n],
        })),
        14 => AnyVal::Header(vb_header(X::Dynafed {
            current: dynafed::Params::Null,
            proposed: dynafed::Params::Null,
            signblock_witness: vec![vb_fill(n)],
        })),
        15 => AnyVal::Header(vb_header(X::Dynafed {
            current: dynafed::Params::Compact {
                signblockscript: Script::from(vb_fill(n)),
                signblock_witness_limit: 0,
                elided_root: dynafed::ElidedRoot::from_byte_array([0x44; 32]),
            },
            proposed: dynafed::Params::Null,
            signblock_witness: vec![],
        })),
        16 => AnyVal::FullParams(vb_full(n, 0, 0, vec![])),
        17 => AnyVal::FullParams(vb_full(0, n, 0, vec![])),
        18 => AnyVal::FullParams(vb_full(0, 0, n, vec![])),
        19 => AnyVal::FullParams(vb_full(0, 0, 0, vec![vec![]; n])),
        20 => AnyVal::FullParams(vb_full(0, 0, 0, vec![vb_fill(n)])),
        21 => AnyVal::Script(Script::from(vb_fill(n))),
        22 => {
            let mut o = vb_out();
            o.script_pubkey = Script::from(vb_fill(n));
            AnyVal::TxOut(o)
        }
        23 => {
            let mut i = vb_in();
            i.script_sig = Script::from(vb_fill(n));
            AnyVal::TxIn(i)
        }
        24 => {
            let mut i = vb_in();
            i.witness.script_witness = vec![vec![]; n];
            AnyVal::InWit(i.witness)
        }
        _ => return None,
    })
}

/// offset of the one compact size in `bytes` whose value is `n` (by the recorded layout)
fn vb_find(bytes: &[u8], l: &enc::Layout, n: usize) -> usize {
    let mut found = Vec::new();
    for &p in &l.cs {
        let v = match bytes[p] {
            0xfd => u64::from(u16::from_le_bytes([bytes[p + 1], bytes[p + 2]])),
            0xfe => u64::from(u32::from_le_bytes([bytes[p + 1], bytes[p + 2], bytes[p + 3], bytes[p + 4]])),
            x => u64::from(x),
        };
        if v == n as u64 {
            found.push(p);
        }
    }
    assert!(found.len() == 1, "harness: carrier compact size not unique ({} matches for {})", found.len(), n);
    found[0]
}

fn vb_expect_reject(ty: usize, carrier: &str, what: &str, m: &[u8], ctx: &mut Ctx) -> R {
    match check_bytes_as(ty, m, ctx) {
        Ok(Some(kind)) => {
            ctx.class(&format!("varint:rejected:{}", kind));
            Ok(())
        }
        Ok(None) => fail!("{} encoded as {} was accepted as {} (and re-encodes identically?)", carrier, what, TYPES[ty]),
        Err(f) => fail!("{} encoded as {} was accepted as {}: {}", carrier, what, TYPES[ty], f.msg),
    }
}

const VB_MAX_ROWS: usize = 4;
/// byte vectors right at the decoder's bound (4 000 000 bytes, inclusive) are values like any other
fn max_size_vectors(k: usize, ctx: &mut Ctx) -> R {
    let (any, what) = match k {
        0 => (AnyVal::Script(Script::from(vb_fill(4_000_000))), "a 4 000 000-byte script"),
        1 => {
            let mut i = vb_in();
            i.witness.script_witness = vec![vec![1], vb_fill(4_000_000)];
            (AnyVal::Tx(vb_tx(vec![i], vec![vb_out()])), "a 4 000 000-byte witness item")
        }
        2 => {
            let mut o = vb_out();
            o.script_pubkey = Script::from(vb_fill(3_999_999));
            (AnyVal::TxOut(o), "a 3 999 999-byte script_pubkey")
        }
        _ => (AnyVal::FullParams(vb_full(1, 1, 4_000_000, vec![])), "a 4 000 000-byte fedpegscript"),
    };
    let ty = any.type_index();
    let (bytes, _) = any.ref_encode();
    dispatch_any!(&any, v => roundtrip_value(&format!("{} with {}", TYPES[ty], what), v, Some(&bytes), &[], ctx))?;
    match check_bytes_as(ty, &bytes, ctx)? {
        None => ctx.class("varint:vector-at-the-size-bound-accepted"),
        Some(kind) => fail!("the encoding of {} with {} was rejected: {}", TYPES[ty], what, kind),
    }
    ctx.nontrivial(&("max", k));
    Ok(())
}

/// every compact-size carrier x every boundary value: the minimal form of 0xfc / 0xfd / 0xffff /
/// 0x10000 is accepted (and round-trips), every wider form of the same number is rejected, and
/// the fixed table of non-minimal / unsatisfiable prefixes is rejected at that position
fn varint_boundaries(idx: u64, _seed: u64, ctx: &mut Ctx) -> R {
    if idx as usize >= VB_CARRIERS.len() * 5 {
        return max_size_vectors(idx as usize - VB_CARRIERS.len() * 5, ctx);
    }
    let c = idx as usize / 5;
    let sub = idx as usize % 5;
    let carrier = VB_CARRIERS[c];
    let n = if sub < 4 { VB_VALUES[sub] } else { 0xfd };
    let Some(any) = vb_build(c, n) else {
        ctx.class("varint:not-applicable(count above the decoder's allocation bound / no proof of that length)");
        return Ok(());
    };
    let ty = any.type_index();
    let (bytes, layout) = any.ref_encode();
    let p = vb_find(&bytes, &layout, n);
    let w = enc::compact_size_len(n as u64);
    if sub < 4 {
        // minimal form: the value round-trips and the bytes are accepted as canonical
        dispatch_any!(&any, v => roundtrip_value(TYPES[ty], v, Some(&bytes), &[], ctx))?;
        match check_bytes_as(ty, &bytes, ctx)? {
            None => ctx.class("varint:minimal-form-accepted"),
            Some(kind) => fail!("{} = {:#x} in its minimal {}-byte form was rejected: {}", carrier, n, w, kind),
        }
        for (tag, width) in [(0xfdu8, 3usize), (0xfe, 5), (0xff, 9)] {
            if width > w {
                let mut e = vec![tag];
                e.extend_from_slice(&(n as u64).to_le_bytes()[..width - 1]);
                let mut m = bytes.clone();
                m.splice(p..p + w, e);
                vb_expect_reject(ty, carrier, &format!("{:#x} in the non-minimal {}-byte form", n, width), &m, ctx)?;
                ctx.class("varint:wider-form-rejected");
            }
        }
        ctx.nontrivial(&(c, n));
    } else {
        let table: [(&str, &[u8]); 6] = [
            ("fd fc 00 (0xfc, non-minimal)", &[0xfd, 0xfc, 0x00]),
            ("fd 00 00 (0, non-minimal)", &[0xfd, 0x00, 0x00]),
            ("fe ff ff 00 00 (0xffff, non-minimal)", &[0xfe, 0xff, 0xff, 0x00, 0x00]),
            ("ff ff ff ff ff 00 00 00 00 (0xffffffff, non-minimal)", &[0xff, 0xff, 0xff, 0xff, 0xff, 0, 0, 0, 0]),
            ("fe ff ff ff ff (0xffffffff, minimal, but the data is not there)", &[0xfe, 0xff, 0xff, 0xff, 0xff]),
            ("ff 00 00 00 00 01 00 00 00 (2^32, minimal, but the data is not there)", &[0xff, 0, 0, 0, 0, 1, 0, 0, 0]),
        ];
        for (what, e) in table {
            let mut m = bytes.clone();
            m.splice(p..p + w, e.iter().copied());
            vb_expect_reject(ty, carrier, what, &m, ctx)?;
            ctx.class("varint:table-prefix-rejected");
        }
        ctx.nontrivial(&(c, "table"));
    }
    Ok(())
}

// ---- values from the library's constructors ---------------------------------------------------

fn ctor_roundtrip(name: &str, any: &AnyVal, ctx: &mut Ctx) -> R {
    let (want, _) = any.ref_encode();
    dispatch_any!(any, v => roundtrip_value(name, v, Some(&want), &[0x5a], ctx))?;
    ctx.class(&format!("constructor:{}", name));
    ctx.nontrivial(&(name, &want));
    Ok(())
}

/// "every value obtained from ... the library's constructors and blinding functions encodes to
/// bytes that decode back to an equal value": values are *made by the library's constructors*
/// from pool keys / tape scalars (never by filling in fields), placed in a container where the
/// statement names one, and sent through `roundtrip_value` against the reference encoding.
/// A constructor that returns Err is not C01's business (counted, skipped).
fn constructors(t: &mut Tape, ctx: &mut Ctx) -> R {
    use elements::confidential::{AssetBlindingFactor, ValueBlindingFactor};
    use elements::pset::PartiallySignedTransaction as Pset;
    use rand::SeedableRng;
    let p = gen::pool();
    let secp = gen::secp();
    let small = TxOpts { big: false, ..TxOpts::default() };
    // non-zero scalars (a zero blinding factor with a zero amount has no commitment)
    let tw = p.tweaks[t.below(p.tweaks.len())];
    let tw2 = p.tweaks[t.below(p.tweaks.len())];
    let (Ok(vbf), Ok(abf)) = (ValueBlindingFactor::from_slice(tw.as_ref()), AssetBlindingFactor::from_slice(tw2.as_ref())) else {
        ctx.class("constructor:(blinding factor rejected)");
        return Ok(());
    };
    let asset_id = gen::gen_asset_id(t);
    let amount = t.edgy_u64();
    let in_txout = |t: &mut Tape, asset: Asset, value: Value, nonce: Nonce| -> AnyVal {
        let mut tx = gen::gen_tx(t, &small);
        let o = TxOut { asset, value, nonce, script_pubkey: gen::gen_script(t, false), witness: TxOutWitness::empty() };
        let k = t.below(tx.output.len() + 1);
        tx.output.insert(k, o);
        AnyVal::Tx(tx)
    };
    let which = t.below(22);
    match which {
        0 => {
            let g = p.generators[t.below(p.generators.len())];
            let v = guard::guard("Value::new_confidential", 0, || Value::new_confidential(secp, amount, g, vbf))?;
            ctor_roundtrip("Value::new_confidential", &AnyVal::Value(v), ctx)?;
            ctor_roundtrip("Value::new_confidential(in tx)", &in_txout(t, Asset::Confidential(g), v, Nonce::Null), ctx)
        }
        1 => {
            let v = guard::guard("Value::new_confidential_from_assetid", 0, || Value::new_confidential_from_assetid(secp, amount, asset_id, vbf, abf))?;
            ctor_roundtrip("Value::new_confidential_from_assetid", &AnyVal::Value(v), ctx)
        }
        2 => {
            let a = guard::guard("Asset::new_confidential", 0, || Asset::new_confidential(secp, asset_id, abf))?;
            ctor_roundtrip("Asset::new_confidential", &AnyVal::Asset(a), ctx)?;
            ctor_roundtrip("Asset::new_confidential(in tx)", &in_txout(t, a, Value::Explicit(amount), Nonce::Null), ctx)
        }
        3 => {
            let sk = p.seckeys[t.below(p.seckeys.len())];
            let pk = p.pubkeys[t.below(p.pubkeys.len())];
            let (n, _) = guard::guard("Nonce::with_ephemeral_sk", 0, || Nonce::with_ephemeral_sk(secp, sk, &pk))?;
            ctor_roundtrip("Nonce::with_ephemeral_sk", &AnyVal::Nonce(n), ctx)?;
            ctor_roundtrip("Nonce::with_ephemeral_sk(in tx)", &in_txout(t, Asset::Explicit(asset_id), Value::Explicit(amount), n), ctx)
        }
        4 => {
            let mut rng = rand_chacha::ChaCha20Rng::from_seed(t.arr32());
            let pk = p.pubkeys[t.below(p.pubkeys.len())];
            let (n, _) = guard::guard("Nonce::new_confidential", 0, || Nonce::new_confidential(&mut rng, secp, &pk))?;
            ctor_roundtrip("Nonce::new_confidential", &AnyVal::Nonce(n), ctx)
        }
        5 => {
            let c = p.commitments[t.below(p.commitments.len())];
            match guard::guard("Value::from_commitment", 33, || Value::from_commitment(&c.serialize()))? {
                Ok(v) => ctor_roundtrip("Value::from_commitment", &AnyVal::Value(v), ctx),
                Err(_) => {
                    ctx.class("constructor:(returned Err)");
                    Ok(())
                }
            }
        }
        6 => {
            let g = p.generators[t.below(p.generators.len())];
            match guard::guard("Asset::from_commitment", 33, || Asset::from_commitment(&g.serialize()))? {
                Ok(v) => ctor_roundtrip("Asset::from_commitment", &AnyVal::Asset(v), ctx),
                Err(_) => {
                    ctx.class("constructor:(returned Err)");
                    Ok(())
                }
            }
        }
        7 => {
            let pk = p.pubkeys[t.below(p.pubkeys.len())];
            let (b, nm): (Vec<u8>, &str) = if t.bool() {
                (pk.serialize().to_vec(), "Nonce::from_commitment(compressed key)")
            } else {
                (pk.serialize_uncompressed().to_vec(), "Nonce::from_commitment(uncompressed key)")
            };
            match guard::guard("Nonce::from_commitment", b.len(), || Nonce::from_commitment(&b))? {
                Ok(v) => {
                    ctor_roundtrip(nm, &AnyVal::Nonce(v), ctx)?;
                    ctor_roundtrip("Nonce::from_commitment(in tx)", &in_txout(t, Asset::Explicit(asset_id), Value::Explicit(amount), v), ctx)
                }
                Err(_) => {
                    ctx.class("constructor:(returned Err)");
                    Ok(())
                }
            }
        }
        8 => {
            let o = guard::guard("TxOut::new_fee", 0, || TxOut::new_fee(amount, asset_id))?;
            ctor_roundtrip("TxOut::new_fee", &AnyVal::TxOut(o.clone()), ctx)?;
            let mut tx = gen::gen_tx(t, &small);
            tx.output.push(o);
            ctor_roundtrip("TxOut::new_fee(in tx)", &AnyVal::Tx(tx), ctx)
        }
        9 => {
            let (i, o) = guard::guard("Default", 0, || (TxIn::default(), TxOut::default()))?;
            ctor_roundtrip("TxIn::default", &AnyVal::TxIn(i.clone()), ctx)?;
            ctor_roundtrip("TxOut::default", &AnyVal::TxOut(o.clone()), ctx)?;
            let mut tx = gen::gen_tx(t, &small);
            let ki = t.below(tx.input.len() + 1);
            tx.input.insert(ki, i);
            let ko = t.below(tx.output.len() + 1);
            tx.output.insert(ko, o);
            ctor_roundtrip("TxIn::default+TxOut::default(in tx)", &AnyVal::Tx(tx), ctx)
        }
        10 => {
            let op = match t.below(3) {
                0 => guard::guard("OutPoint::null", 0, OutPoint::null)?,
                1 => guard::guard("OutPoint::default", 0, OutPoint::default)?,
                _ => {
                    let (txid, vout) = (gen::gen_txid(t), gen::gen_vout(t));
                    guard::guard("OutPoint::new", 0, || OutPoint::new(txid, vout))?
                }
            };
            ctor_roundtrip("OutPoint::{null,default,new}", &AnyVal::OutPoint(op), ctx)?;
            let mut i = gen::gen_txin(t, &TxOpts { witness: false, coinbase: false, ..small });
            i.previous_output = op;
            if op.vout == u32::MAX {
                // the flag-exempt index carries neither flag
                i.is_pegin = false;
                i.asset_issuance = AssetIssuance::null();
            }
            if i.is_pegin && i.has_issuance() && op.vout == 0x3fff_ffff {
                i.is_pegin = false;
            }
            ctor_roundtrip("OutPoint::{null,default,new}(in txin)", &AnyVal::TxIn(i), ctx)
        }
        11 => {
            let a = if t.bool() { guard::guard("AssetIssuance::null", 0, AssetIssuance::null)? } else { guard::guard("AssetIssuance::default", 0, AssetIssuance::default)? };
            ctor_roundtrip("AssetIssuance::{null,default}", &AnyVal::Issuance(a), ctx)?;
            let mut tx = gen::gen_tx(t, &small);
            let mut i = TxIn::default();
            i.asset_issuance = a;
            i.previous_output = OutPoint::new(gen::gen_txid(t), gen::gen_vout(t));
            tx.input.push(i);
            ctor_roundtrip("AssetIssuance::{null,default}(in tx)", &AnyVal::Tx(tx), ctx)
        }
        12 | 13 => {
            let f = if t.chance(32) { xg::gen_full_params_x(t) } else { gen::gen_full_params(t) };
            let full = guard::guard("FullParams::new", 0, || {
                dynafed::FullParams::new(f.signblockscript.clone(), f.signblock_witness_limit, f.fedpeg_program.clone(), f.fedpegscript.clone(), f.extension_space.clone())
            })?;
            ctor_roundtrip("FullParams::new", &AnyVal::FullParams(full.clone()), ctx)?;
            let compact = guard::guard("FullParams::into_compact", 0, || full.clone().into_compact())?;
            ensure!(matches!(compact, dynafed::Params::Compact { .. }), "FullParams::into_compact did not return compact parameters");
            ctor_roundtrip("FullParams::into_compact", &AnyVal::Params(compact.clone()), ctx)?;
            let mut h = gen::gen_header(t);
            h.ext = elements::BlockExtData::Dynafed {
                current: compact,
                proposed: if t.bool() { dynafed::Params::Full(full) } else { dynafed::Params::default() },
                signblock_witness: if t.bool() { gen::gen_stack(t, false) } else { vec![] },
            };
            ctor_roundtrip("FullParams::into_compact(in header)", &AnyVal::Header(h), ctx)
        }
        14 => {
            let mut h = gen::gen_header(t);
            h.ext = guard::guard("BlockExtData::default", 0, elements::BlockExtData::default)?;
            ctor_roundtrip("BlockExtData::default(in header)", &AnyVal::Header(h.clone()), ctx)?;
            ctor_roundtrip("BlockExtData::default(in block)", &AnyVal::Block(Block { header: h, txdata: vec![gen::gen_tx(t, &small)] }), ctx)
        }
        15 => {
            use elements::bitcoin::hashes::Hash as _;
            let claim = {
                let n = t.len(40, false);
                t.bytes(n)
            };
            let txb = {
                let n = t.len(80, true);
                t.filler(n)
            };
            let mp = {
                let n = 80 + t.len(70, true);
                t.filler(n)
            };
            let pd = elements::PeginData {
                outpoint: elements::bitcoin::OutPoint { txid: elements::bitcoin::Txid::from_byte_array(t.arr32()), vout: t.edgy_u32() },
                value: t.edgy_u64(),
                asset: asset_id,
                genesis_hash: elements::bitcoin::BlockHash::from_byte_array(t.arr32()),
                claim_script: &claim,
                tx: &txb,
                merkle_proof: &mp,
                referenced_block: elements::bitcoin::BlockHash::from_byte_array(t.arr32()),
            };
            let w = guard::guard("PeginData::to_pegin_witness", 0, || pd.to_pegin_witness())?;
            let mut tx = gen::gen_tx(t, &small);
            let mut i = gen::gen_txin(t, &TxOpts { coinbase: false, ..small });
            i.is_pegin = !(i.has_issuance() && i.previous_output.vout == 0x3fff_ffff);
            i.witness.pegin_witness = w;
            tx.input.push(i);
            ctor_roundtrip("PeginData::to_pegin_witness(in tx)", &AnyVal::Tx(tx), ctx)
        }
        16 => {
            let n = t.edgy_u32();
            let lt = match t.below(4) {
                // n % 4 == 2: the raw number, also outside the unit's domain — the constructor may refuse it, but a
                // value it does return must survive the round trip like any other
                0 => guard::guard("LockTime::from_height", 0, || LockTime::from_height(if n % 4 == 1 { 499_999_999 } else if n % 4 == 2 { n } else { n % 500_000_000 }))?.ok(),
                1 => guard::guard("LockTime::from_time", 0, || LockTime::from_time(if n % 4 == 0 { 500_000_000 } else if n % 4 == 2 { n } else { n | 0x2000_0000 }))?.ok(),
                2 => Some(guard::guard("LockTime::from_consensus", 0, || LockTime::from_consensus(n))?),
                _ => Some(LockTime::ZERO),
            };
            let Some(lt) = lt else {
                ctx.class("constructor:(returned Err)");
                return Ok(());
            };
            ctor_roundtrip("LockTime::{from_height,from_time,from_consensus,ZERO}", &AnyVal::LockTime(lt), ctx)?;
            let mut tx = gen::gen_tx(t, &small);
            tx.lock_time = lt;
            ctor_roundtrip("LockTime(in tx)", &AnyVal::Tx(tx), ctx)
        }
        17 => {
            let n = t.edgy_u32();
            let s = match t.below(6) {
                0 => Sequence::from_height(n as u16),
                1 => Sequence::from_512_second_intervals(n as u16),
                2 => Sequence::from_consensus(n),
                3 => Sequence::MAX,
                4 => Sequence::ZERO,
                _ => match guard::guard("Sequence::from_seconds_floor", 0, || Sequence::from_seconds_floor(n % (512 * 65536)))? {
                    Ok(s) => s,
                    Err(_) => {
                        ctx.class("constructor:(returned Err)");
                        return Ok(());
                    }
                },
            };
            ctor_roundtrip("Sequence::{from_height,from_512_second_intervals,from_consensus,MAX,ZERO,from_seconds_floor}", &AnyVal::Sequence(s), ctx)
        }
        18 | 19 => {
            // PSET view of a transaction and back
            let tx = gen::gen_tx(t, &TxOpts { big: false, wellformed: true, ..TxOpts::default() });
            let r = guard::guard("from_tx/extract_tx", 0, || Pset::from_tx(tx).extract_tx())?;
            match r {
                Ok(x) => ctor_roundtrip("Pset::from_tx.extract_tx", &AnyVal::Tx(x), ctx),
                Err(_) => {
                    ctx.class("constructor:(returned Err)");
                    Ok(())
                }
            }
        }
        20 => {
            if !t.chance(40) {
                ctx.class("constructor:(blinding skipped, 1 in 6 is run)");
                return Ok(());
            }
            let case = gen::ct::gen_ct_case(t, false);
            match super::c04::blind_case(&case) {
                Ok((tx, _)) => ctor_roundtrip("Transaction::blind", &AnyVal::Tx(tx), ctx),
                Err(_) => {
                    // whether blinding succeeds is C04's question
                    ctx.class("constructor:(returned Err)");
                    Ok(())
                }
            }
        }
        _ => {
            if !t.chance(40) {
                ctx.class("constructor:(blinding skipped, 1 in 6 is run)");
                return Ok(());
            }
            let case = gen::ct::gen_ct_case(t, true);
            let mut rng = rand_chacha::ChaCha20Rng::from_seed(case.rng_seed);
            let rk = p.pubkeys[t.below(p.pubkeys.len())];
            let sec = case.secrets[t.below(case.secrets.len())];
            let value = gen::ct::gen_amount(t);
            let spk = gen::ct::std_script(t);
            let outs: Vec<elements::TxOutSecrets> = Vec::new();
            let refs: Vec<&elements::TxOutSecrets> = outs.iter().collect();
            let r = guard::guard("TxOut::new_last_confidential", 0, || {
                TxOut::new_last_confidential(&mut rng, secp, value, sec.asset, spk.clone(), rk, &case.secrets, &refs)
            })?;
            match r {
                Ok((o, _, _, _)) => {
                    let mut tx = gen::gen_tx(t, &small);
                    tx.output.push(o);
                    ctor_roundtrip("TxOut::new_last_confidential(in tx)", &AnyVal::Tx(tx), ctx)
                }
                Err(_) => {
                    ctx.class("constructor:(returned Err)");
                    Ok(())
                }
            }
        }
    }
}

/// the repository's hex vectors: reference encoder self-anchor + bijection + mutants
fn vectors(idx: u64, seed: u64, ctx: &mut Ctx) -> R {
    let files = corpus_tx_files();
    let (fname, bytes) = &files[idx as usize % files.len()];
    let is_block = fname.contains("block");
    if is_block {
        let blk = match deserialize::<Block>(bytes) {
            Ok(b) => b,
            Err(e) => fail!("repository vector {} no longer decodes: {}", fname, e),
        };
        let mut want = Vec::new();
        enc::block(&mut want, &blk);
        ensure_eq!(hex(&want), hex(bytes), "reference encoder disagrees with repository vector {}", fname);
        roundtrip_value("Block", &blk, Some(bytes), &[0], ctx)?;
    } else if fname.starts_with("pset") {
        return Ok(());
    } else {
        let tx = match deserialize::<Transaction>(bytes) {
            Ok(b) => b,
            Err(e) => fail!("repository vector {} no longer decodes: {}", fname, e),
        };
        let want = enc::tx_full(&tx);
        ensure_eq!(hex(&want), hex(bytes), "reference encoder disagrees with repository vector {}", fname);
        roundtrip_value("Transaction", &tx, Some(bytes), &[0], ctx)?;
        ctx.nontrivial(&("vector", fname));
        // mutants of the vector
        let (_, layout) = enc::with_layout(|| enc::tx_full(&tx));
        let rnd = seeded_bytes(seed, idx, 4096);
        let mut t = Tape::new(&rnd);
        for _ in 0..60 {
            let mut b = bytes.clone();
            let op = mutate::mutate_once(&mut t, &mut b, &layout);
            if &b == bytes {
                continue;
            }
            let r = accept_implies_canonical::<Transaction>("Transaction", &b, ctx)?;
            ctx.class(&format!("vector-mutant:{}:{}", op, if r.is_none() { "accepted" } else { "rejected" }));
        }
    }
    ctx.class("vector");
    Ok(())
}

/// raw bytes (fuzz entry and replay format): first byte selects the type, the rest is the wire string
fn raw_bytes(t: &mut Tape, ctx: &mut Ctx) -> R {
    let ty = usize::from(t.u8()) % TYPES.len();
    let n = t.remaining();
    let b = t.bytes(n);
    let r = check_bytes_as(ty, &b, ctx)?;
    ctx.class(&format!("raw:{}:{}", TYPES[ty], if r.is_none() { "accepted" } else { "rejected" }));
    if r.is_none() && b.len() > 4 {
        ctx.nontrivial(&(ty, &b));
    }
    Ok(())
}

pub fn corpus_tx_files() -> Vec<(String, Vec<u8>)> {
    let mut out = Vec::new();
    let dir = format!("{}/corpus/tx", verif_dir());
    if let Ok(rd) = std::fs::read_dir(&dir) {
        let mut names: Vec<_> = rd.filter_map(|e| e.ok()).map(|e| e.path()).collect();
        names.sort();
        for p in names {
            if let Ok(s) = std::fs::read_to_string(&p) {
                if let Some(b) = unhex(&s) {
                    out.push((p.file_name().unwrap().to_string_lossy().to_string(), b));
                }
            }
        }
    }
    out
}

pub fn property() -> Property {
    Property {
        id: "C01",
        rule: "values: tape-generated canonical values of 20 consensus types (transactions weighted highest) over \
               coinbase/pegin/issuance/reissuance inputs, null/explicit/confidential fields, six witness fields, \
               proof/dynafed headers, lengths on both sides of the 0xfd/0x10000 varint boundaries; oracle: serialize == \
               independent reference encoder byte for byte, reported length == bytes written, decode == value, the same \
               through a reader with short reads, two encodings back to back in one reader (positions len and 2*len) and a \
               writer with short writes, partial decode with junk, full decode rejects junk. big_values: the same oracle \
               on what one 3000-byte tape cannot vary: headers / dynafed parameters whose scripts, witness items, extension \
               entries and counts cross 0xfd / 0x10000; vector counts 7..0xfb, 0xfc..0xfe, 0x100/0x101/300 and 1000 / 5000 \
               (inputs, outputs, block transactions) resp. up to 0x10001 / 100000 (witness stacks, extension space); \
               elements of big vectors varied at every index (own sub-tape per element) plus big elements at tape-chosen \
               indices; range proofs of exactly 0xfc..0x10001 bytes; byte vectors of 0x20000 / 1000000 / 3999999 / 4000000 \
               bytes; junk suffix drawn before the value. mutants: 1-3 byte-level mutations (12 operators, layout-aware) of a \
               valid encoding; oracle: accepted => re-encodes to exactly the input, reported length == bytes written, \
               reference encoder renders the decoded value to the same bytes. big_mutants: the same on big_values' values \
               with the mutation plan drawn before the value. noncanonical: the 8 rejection classes named by the property \
               built on purpose on a stand-alone transaction, noncanonical_containers: the same classes on a transaction \
               inside a block, unknown dynafed parameter tags, trailing bytes and non-minimal counts of blocks / headers / \
               parameters; each must be Err. varint_boundaries (complete): 25 compact-size carriers x {0xfc, 0xfd, 0xffff, \
               0x10000}: minimal form round-trips, every wider form rejected, plus 6 fixed non-minimal / unsatisfiable \
               prefixes rejected at each carrier, plus 4 byte vectors of 3999999 / 4000000 bytes (the decoder's bound, inclusive) \
               that must round-trip. constructors: values made by the library's constructors (confidential \
               commitments, nonces, from_commitment, new_fee, defaults, null outpoint / issuance, FullParams::new / \
               into_compact, BlockExtData::default, PeginData::to_pegin_witness, lock times, sequences, from_tx.extract_tx, \
               Transaction::blind, new_last_confidential), alone and inside a container, same oracle as values. vectors: \
               repository hex vectors + 60 mutants each. Non-trivial: value with >=1 structural feature \
               (pegin/issuance/confidential/witness/dynafed/multi-byte varint, for big_values a count class above 8, a long \
               header field or something non-default at index >= 60); mutant differing from the valid encoding and longer \
               than 8 bytes; every boundary-table and constructor case; distinct by encoded bytes.",
        assumptions: &[
            "secp256k1-zkp renders curve points and proofs (serialize) correctly; the harness encoder is anchored on the repository's hex vectors",
            "vector counts stay below the decoder's allocation bound (count * size_of::<T>() <= 4 000 000): hand-made values above it are not decoder / constructor values",
        ],
        subs: vec![
            Sub { name: "values", kind: Kind::Tape { max_len: 3000, quick: 240_000, thorough: 2_400_000, f: values } },
            Sub { name: "mutants", kind: Kind::Tape { max_len: 3000, quick: 800_000, thorough: 12_000_000, f: mutants } },
            Sub { name: "noncanonical", kind: Kind::Tape { max_len: 1500, quick: 160_000, thorough: 1_200_000, f: noncanonical } },
            Sub { name: "vectors", kind: Kind::Index { count: |t| t.pick(15, 15 * 40), exhaustive: false, f: vectors } },
            Sub { name: "raw_bytes", kind: Kind::Tape { max_len: 300, quick: 160_000, thorough: 1_600_000, f: raw_bytes } },
            Sub { name: "big_values", kind: Kind::Tape { max_len: 3000, quick: 16_000, thorough: 400_000, f: big_values } },
            Sub { name: "big_mutants", kind: Kind::Tape { max_len: 3000, quick: 40_000, thorough: 1_000_000, f: big_mutants } },
            Sub { name: "noncanonical_containers", kind: Kind::Tape { max_len: 1500, quick: 80_000, thorough: 800_000, f: noncanonical_containers } },
            Sub { name: "varint_boundaries", kind: Kind::Index { count: |_| (VB_CARRIERS.len() * 5 + VB_MAX_ROWS) as u64, exhaustive: true, f: varint_boundaries } },
            Sub { name: "constructors", kind: Kind::Tape { max_len: 2500, quick: 24_000, thorough: 600_000, f: constructors } },
        ],
        known: vec![],
    }
}
