//! C17 — segwit address checksums detect every one- and two-character corruption.
use std::str::FromStr;

use elements::Address;
use serde_json::json;

use crate::engine::*;
use crate::gen::pool;
use crate::props::c06::{from_lib, gen_ref_segwit, lib_params};
use crate::refimpl::addr::{self as ra, RefAddr, RefPayload, NETS};

/// length classes of the design: (version selector, program length); selector 2 = "2..=16"
const CLASSES: [(u8, usize); 6] = [(0, 20), (0, 32), (1, 32), (2, 2), (2, 20), (2, 40)];
const N_CLASS: u64 = 12; // 6 length classes x {unblinded, blinded}

/// representatives whose corruptions are enumerated completely.
/// quick: one per (length class, blinded) = 12, network and letter case rotating with the class
/// and the run seed; thorough: every (class, blinded, network, case) with two payloads each.
/// (A failing parse costs about 0.55 us, the twelve classes have 39.7 M corruptions, each parsed
/// four times: about 90 CPU-seconds per dozen representatives.)
fn n_reps(tier: Tier) -> u64 {
    tier.pick(12, 144)
}
/// representatives of the (cheap) human-readable-part enumeration: all 72 shapes, 1 / 4 payloads
fn n_hrp_reps(tier: Tier) -> u64 {
    tier.pick(72, 288)
}

struct Rep {
    id: u64,
    net: usize,
    blinded: bool,
    class: (u8, usize),
    upper: bool,
}

/// for a fixed class the six values of k give the six (network, case) combinations
fn rep_shape(r: u64, rot: u64) -> Rep {
    let c12 = r % N_CLASS;
    let k = (r / N_CLASS + rot) % 6;
    Rep {
        id: r,
        net: ((k + c12) % 3) as usize,
        blinded: c12 >= 6,
        class: CLASSES[(c12 % 6) as usize],
        upper: (k / 3 + c12) % 2 == 1,
    }
}

/// number of characters after the separator (version + payload + checksum)
fn data_chars(rep: &Rep) -> u64 {
    let bytes = rep.class.1 + if rep.blinded { 33 } else { 0 };
    (1 + (bytes * 8 + 4) / 5 + if rep.blinded { 12 } else { 6 }) as u64
}

fn rep_addr(rep: &Rep, seed: u64) -> RefAddr {
    let bytes = seeded_bytes(seed, rep.id, 48);
    // "2..16": the first representative of each class (the only one of the quick tier) pins the two ends
    // of the range, 2 and 16, on two of the three program lengths (swapped between the unblinded and the
    // blinded form); every other representative takes its version from the run seed
    let version = match (rep.class.0, rep.class.1, rep.id / N_CLASS, rep.blinded) {
        (2, 2, 0, false) | (2, 20, 0, true) => 2,
        (2, 20, 0, false) | (2, 2, 0, true) => 16,
        (2, ..) => 2 + bytes[40] % 15,
        (v, ..) => v,
    };
    let blinder = if rep.blinded {
        let p = pool();
        Some(p.pubkeys[(bytes[41] as usize) % p.pubkeys.len()].serialize().to_vec())
    } else {
        None
    };
    RefAddr { net: rep.net, payload: RefPayload::Wit { version, program: bytes[..rep.class.1].to_vec() }, blinder }
}

fn rep_string(rep: &Rep, seed: u64) -> String {
    let s = rep_addr(rep, seed).encode();
    if rep.upper {
        s.to_ascii_uppercase()
    } else {
        s
    }
}

fn rep_label(rep: &Rep) -> String {
    format!(
        "{}{}/v{}/{}/{}/{}",
        if rep.blinded { "blech32" } else { "bech32" },
        if rep.class.0 == 0 { "" } else { "m" },
        match rep.class.0 {
            2 => "2..16".to_string(),
            v => v.to_string(),
        },
        rep.class.1,
        NETS[rep.net].name,
        if rep.upper { "upper" } else { "lower" }
    )
}

fn alphabet(upper: bool) -> [u8; 32] {
    let mut a = *ra::CHARSET;
    if upper {
        a.make_ascii_uppercase();
    }
    a
}

/// all four parsers on one string; bit i set = parser i accepted
fn parse_mask(s: &str) -> u8 {
    let mut m = 0u8;
    if Address::from_str(s).is_ok() {
        m |= 1;
    }
    for i in 0..3 {
        if Address::parse_with_params(s, lib_params(i)).is_ok() {
            m |= 2 << i;
        }
    }
    m
}

fn accepted_failure(orig: &str, bad: &str, mask: u8, what: &str) -> Failure {
    let how: Vec<String> = (0..4)
        .filter(|i| mask >> i & 1 == 1)
        .map(|i| if i == 0 { "from_str".to_string() } else { format!("parse_with_params({})", NETS[i - 1].name) })
        .collect();
    let parsed = Address::from_str(bad)
        .ok()
        .or_else(|| (0..3).find_map(|i| Address::parse_with_params(bad, lib_params(i)).ok()))
        .and_then(|a| from_lib(&a).ok())
        .map(|r| format!("{:?}", r))
        .unwrap_or_default();
    let diff: Vec<usize> = orig.bytes().zip(bad.bytes()).enumerate().filter(|(_, (a, b))| a != b).map(|(i, _)| i).collect();
    Failure::new(format!(
        "{}: {:?} (valid address {:?} with the characters at string positions {:?} replaced) is accepted by {} as {}",
        what,
        bad,
        orig,
        diff,
        how.join(", "),
        parsed
    ))
}

/// One guarded evaluation of all four parsers on the corrupted buffer
fn check_rejected(orig: &str, buf: &[u8], what: &str) -> R {
    let Ok(s) = std::str::from_utf8(buf) else {
        return Err(Failure::panic("corrupted buffer is not ASCII".into(), "src/props/c17.rs".into()));
    };
    let mask = guard::guard("Address parsers", s.len(), || parse_mask(s))?;
    if mask != 0 {
        let f = guard::guard("Address parsers", s.len(), || accepted_failure(orig, s, mask, what))?;
        return Err(f);
    }
    Ok(())
}

fn total_chunks(tier: Tier) -> u64 {
    // the number of data characters depends on the class only, not on the rotation
    (0..n_reps(tier)).map(|r| data_chars(&rep_shape(r, 0))).sum()
}

/// index = (representative, first corrupted position); enumerates every replacement character at
/// that position alone and together with every replacement at every later position
fn single_and_double_exhaustive(idx: u64, seed: u64, ctx: &mut Ctx) -> R {
    let mut rest = idx;
    let mut r = 0u64;
    let rot = splitmix(seed) % 6;
    let rep = loop {
        let rep = rep_shape(r, rot);
        let n = data_chars(&rep);
        if rest < n {
            break rep;
        }
        rest -= n;
        r += 1;
        if r > 100_000 {
            return Err(Failure::panic("chunk index out of range".into(), "src/props/c17.rs".into()));
        }
    };
    let p = rest as usize;
    let orig = rep_string(&rep, seed);
    let n = data_chars(&rep) as usize;
    let Some(sep) = orig.rfind('1') else {
        return Err(Failure::panic("representative without separator".into(), "src/props/c17.rs".into()));
    };
    let ds = sep + 1;
    if orig.len() - ds != n {
        return Err(Failure::panic(
            format!("representative {} has {} data characters, expected {}", orig, orig.len() - ds, n),
            "src/props/c17.rs".into(),
        ));
    }
    if p == 0 {
        // the uncorrupted representative is a valid address (otherwise the enumeration is vacuous)
        let ok = guard::guard("Address::from_str", orig.len(), || Address::from_str(&orig).is_ok())?;
        if !ok {
            return Err(Failure::new(format!("representative {:?} ({}) does not parse", orig, rep_label(&rep))));
        }
        ctx.class(&format!("representative:{}", rep_label(&rep)));
        if let RefPayload::Wit { version, .. } = &rep_addr(&rep, seed).payload {
            ctx.class(&format!("representative-witness-version:v{}:{}", version, if rep.blinded { "blinded" } else { "unblinded" }));
        }
        if ctx.wants_sample("representative") {
            ctx.sample("representative", || json!({"representative": rep_label(&rep), "address": orig, "data_characters": n,
                "corruptions_enumerated": 31 * n + 961 * (n * (n - 1) / 2)}));
        }
    }
    let alpha = alphabet(rep.upper);
    let mut buf = orig.clone().into_bytes();
    let op = buf[ds + p];
    let label = "one/two-character corruption of the data part";
    let mut strings = 0u64;
    for &c in alpha.iter() {
        if c == op {
            continue;
        }
        buf[ds + p] = c;
        check_rejected(&orig, &buf, label)?;
        strings += 1;
        for q in p + 1..n {
            let oq = buf[ds + q];
            for &d in alpha.iter() {
                if d == oq {
                    continue;
                }
                buf[ds + q] = d;
                check_rejected(&orig, &buf, label)?;
                strings += 1;
            }
            buf[ds + q] = oq;
        }
    }
    ctx.evals_n(4 * strings);
    ctx.class_n(if rep.blinded { "corrupted-strings:blinded" } else { "corrupted-strings:unblinded" }, strings);
    ctx.class_n(if p == 0 { "corrupted-strings:version-character-involved" } else { "corrupted-strings:version-character-intact" }, strings);
    ctx.nontrivial(&(rep.id, p));
    Ok(())
}

/// every one- and two-character replacement of the human-readable part over [a-zA-Z0-9-_.! ]
fn hrp_corruptions(idx: u64, seed: u64, ctx: &mut Ctx) -> R {
    let rep = rep_shape(idx, 0);
    let orig = rep_string(&rep, seed ^ 0x6872_70);
    let Some(sep) = orig.rfind('1') else {
        return Err(Failure::panic("representative without separator".into(), "src/props/c17.rs".into()));
    };
    // both letter cases, digits and a few other printable characters: a replacement by the other
    // case of a letter (e.g. "LQ1qq..") must be rejected as well
    let _ = rep.upper;
    let alpha: Vec<u8> = b"abcdefghijklmnopqrstuvwxyzABCDEFGHIJKLMNOPQRSTUVWXYZ0123456789-_.! ".to_vec();
    let label = "one/two-character corruption of the human-readable part";
    let mut buf = orig.clone().into_bytes();
    let mut strings = 0u64;
    for p in 0..sep {
        let op = buf[p];
        for &c in &alpha {
            if c == op {
                continue;
            }
            buf[p] = c;
            check_rejected(&orig, &buf, label)?;
            strings += 1;
            for q in p + 1..sep {
                let oq = buf[q];
                for &d in &alpha {
                    if d == oq {
                        continue;
                    }
                    buf[q] = d;
                    check_rejected(&orig, &buf, label)?;
                    strings += 1;
                }
                buf[q] = oq;
            }
        }
        buf[p] = op;
    }
    ctx.evals_n(4 * strings);
    ctx.class_n("corrupted-strings:hrp", strings);
    ctx.nontrivial(&("hrp", rep.id));
    Ok(())
}

/// fresh addresses of the whole domain, one or two random replacements in the data part
fn sampled(t: &mut Tape, ctx: &mut Ctx) -> R {
    let a = gen_ref_segwit(t);
    let upper = t.chance(64);
    let mut orig = a.encode();
    if upper {
        orig.make_ascii_uppercase();
    }
    let Some(sep) = orig.rfind('1') else {
        return Err(Failure::panic("address without separator".into(), "src/props/c17.rs".into()));
    };
    let ds = sep + 1;
    let n = orig.len() - ds;
    let alpha = alphabet(upper);
    let mut buf = orig.clone().into_bytes();
    let two = t.bool();
    let p = match t.below(4) {
        0 => 0,              // version character
        1 => n - 1 - t.below(if a.blinder.is_some() { 12 } else { 6 }), // checksum
        _ => t.below(n),
    };
    let mut positions = vec![p];
    if two {
        let mut q = t.below(n - 1);
        if q >= p {
            q += 1;
        }
        positions.push(q);
    }
    for &i in &positions {
        let cur = alpha.iter().position(|&c| c == buf[ds + i]).unwrap_or(0);
        buf[ds + i] = alpha[(cur + 1 + t.below(31)) % 32];
    }
    check_rejected(&orig, &buf, "sampled corruption of the data part")?;
    ctx.evals_n(4);
    ctx.class(&format!(
        "sampled:{}:{}:{}",
        if a.blinder.is_some() { "blinded" } else { "unblinded" },
        if two { "two" } else { "one" },
        if positions.contains(&0) { "version-character" } else { "other" }
    ));
    ctx.nontrivial(&buf);
    if ctx.wants_sample("sampled") {
        ctx.sample("sampled", || json!({"address": orig, "corrupted": String::from_utf8_lossy(&buf), "positions_in_data_part": positions}));
    }
    Ok(())
}

pub fn property() -> Property {
    Property {
        id: "C17",
        rule: "single_and_double_exhaustive: representatives = {bech32 v0/20, v0/32; bech32m v1/32, v2..16 at 2, 20, 40 bytes; \
               blech32 / blech32m likewise with a pool blinding key} (quick: 12 representatives, one per class, network and \
               letter case rotating with class and run seed; the v2..16 classes use version 2, 16 and a seed-dependent version \
               on their first representative, seed-dependent versions on the others; thorough: 144 = all 72 (class, network, case) combinations x 2 \
               payloads), payloads from the run seed. For each representative EVERY replacement of one data-part character (version character and checksum \
               included) by each of the 31 other alphabet characters and EVERY pair of such replacements is parsed with \
               from_str and parse_with_params under all three parameter sets; all four must fail. Work unit (index) = \
               (representative, first corrupted position). hrp_corruptions: for all 72 shapes (x 4 payloads thorough) every 1- and 2-character \
               replacement of the human-readable part over [a-zA-Z0-9] and five other printable characters (so case changes of the HRP are included). sampled: tape-generated \
               addresses of the whole C06 domain with 1-2 random replacements. Every corrupted string is non-trivial; \
               `evaluations` counts parser calls (4 per corrupted string) and `distinct_nontrivial` counts the work units \
               (representative, first position) of the enumeration - not strings, which are counted in the histogram \
               `corrupted-strings:*` - plus the distinct sampled strings.",
        assumptions: &[
            "representatives are produced by the harness's reference encoders (self-tested against the repository's fixed addresses) and each is checked to parse before it is corrupted",
            "completeness is per enumerated representative; other addresses are sampled",
        ],
        subs: vec![
            Sub { name: "single_and_double_exhaustive", kind: Kind::Index { count: total_chunks, exhaustive: true, f: single_and_double_exhaustive } },
            Sub { name: "hrp_corruptions", kind: Kind::Index { count: n_hrp_reps, exhaustive: true, f: hrp_corruptions } },
            Sub { name: "sampled", kind: Kind::Tape { max_len: 200, quick: 100_000, thorough: 3_000_000, f: sampled } },
        ],
        known: vec![],
    }
}
