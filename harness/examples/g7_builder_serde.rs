//! Stand-alone demonstration (review g7, item C10-9): a `TaprootBuilder` made by serde can break the
//! invariant `finalize` / `is_complete` rely on.  usage: g7_builder_serde '<json>'
use elements::taproot::TaprootBuilder;
use verif::engine::guard;
use verif::gen::{pool, secp};

fn main() {
    guard::init();
    let text = std::env::args().nth(1).unwrap_or_else(|| "{\"branch\":[null]}".to_string());
    println!("input: {}", text);
    let b = match serde_json::from_str::<TaprootBuilder>(&text) {
        Ok(b) => b,
        Err(e) => {
            println!("deserializer refuses: {}", e);
            return;
        }
    };
    println!("deserialized: {:?}", b);
    let key = pool().pubkeys[0].x_only_public_key().0;
    guard::set_quiet(true);
    for (name, r) in [
        ("is_complete", guard::guard("is_complete", 0, || format!("{:?}", b.is_complete()))),
        ("add_leaf(1)", guard::guard("add_leaf", 0, || format!("{:?}", b.clone().add_leaf(1, elements::Script::new()).map(|_| ())))),
        ("add_leaf(0)", guard::guard("add_leaf", 0, || format!("{:?}", b.clone().add_leaf(0, elements::Script::new()).map(|_| ())))),
        ("finalize", guard::guard("finalize", 0, || format!("{:?}", b.clone().finalize(secp(), key).map(|_| ())))),
    ] {
        match r {
            Ok(s) => println!("{}: {}", name, s),
            Err(f) => println!("{}: FAILURE {}", name, f.msg),
        }
    }
}
