//! Stand-alone demonstration (review g7, item C10-3): `dynafed::Params` deserialized from CBOR
//! pre-allocates the *declared* length of an array given for `fedpegscript`.
//! usage: g7_cbor_bomb <hex of the CBOR document>
use verif::engine::{guard, hex, unhex};

fn main() {
    guard::init();
    let arg = std::env::args().nth(1).unwrap_or_default();
    let b = unhex(&arg).expect("hex");
    println!("input ({} bytes): {}", b.len(), hex(&b));
    let r = guard::guard("serde_cbor::from_slice::<dynafed::Params>", b.len(), || {
        serde_cbor::from_slice::<elements::dynafed::Params>(&b).map(|p| format!("{:?}", p)).map_err(|e| e.to_string())
    });
    let (max_req, peak) = guard::last_alloc_stats();
    println!("largest single allocation request: {} bytes, peak live growth: {} bytes", max_req, peak);
    match r {
        Ok(r) => println!("guard: ok, deserializer returned {:?}", r),
        Err(f) => println!("guard: FAILURE {}", f.msg),
    }
}
