//! Stand-alone demonstration: serde deserialization of a confidential commitment from a short byte string.
//! usage: g7_commitment_serde value|asset|nonce|txout cbor|cbor-reader|json <hex of CBOR | JSON text>
use verif::engine::{guard, unhex};

fn main() {
    guard::init();
    let a: Vec<String> = std::env::args().collect();
    let (ty, codec, doc) = (a[1].as_str(), a[2].as_str(), a[3].as_str());
    macro_rules! go {
        ($t:ty) => {{
            let r = if codec == "cbor-reader" {
                let b = unhex(doc).expect("hex");
                guard::guard("serde_cbor::from_reader", b.len(), || serde_cbor::from_reader::<$t, _>(&b[..]).map(|v| format!("{:?}", v)).map_err(|e| e.to_string()))
            } else if codec == "cbor" {
                let b = unhex(doc).expect("hex");
                guard::guard("serde_cbor::from_slice", b.len(), || serde_cbor::from_slice::<$t>(&b).map(|v| format!("{:?}", v)).map_err(|e| e.to_string()))
            } else {
                guard::guard("serde_json::from_str", doc.len(), || serde_json::from_str::<$t>(doc).map(|v| format!("{:?}", v)).map_err(|e| e.to_string()))
            };
            match r {
                Ok(r) => println!("{} {} {}: {:?}", ty, codec, doc, r),
                Err(f) => println!("{} {} {}: FAILURE {}", ty, codec, doc, f.msg),
            }
        }};
    }
    match ty {
        "value" => go!(elements::confidential::Value),
        "asset" => go!(elements::confidential::Asset),
        "nonce" => go!(elements::confidential::Nonce),
        _ => go!(elements::TxOut),
    }
}
