#!/bin/bash
# Build the harness offline from files on disk only.
set -e
cd "$(dirname "$0")/harness"
export CARGO_NET_OFFLINE=true
mkdir -p /verif/replays /verif/evidence
cargo build --release --offline 2>&1 | tail -3
./target/release/verif selftest
# the libFuzzer targets (thorough tier) are built on demand by fuzz/run_fuzz.sh (about 4 min cold)
