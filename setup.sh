#!/bin/bash
# Build the harness offline from files on disk only.
set -e
cd "$(dirname "$0")/harness"
export CARGO_NET_OFFLINE=true
mkdir -p /verif/replays /verif/evidence
cargo build --release --offline 2>&1 | tail -3
./target/release/verif selftest
if [ -d /verif/fuzz ] && [ -f /verif/fuzz/Cargo.toml ]; then
  (cd /verif/fuzz && cargo +nightly fuzz build -O 2>&1 | tail -3) || echo "fuzz build failed (thorough fuzz campaigns unavailable)"
fi
