#!/bin/bash
# Build the harness offline from files on disk only.
set -e
ROOT="$(cd "$(dirname "$0")" && pwd)"
export VERIF_ROOT="$ROOT"
cd "$ROOT/harness"
export CARGO_NET_OFFLINE=true
mkdir -p "$ROOT/replays" "$ROOT/evidence"
cargo build --release --offline 2>&1 | tail -3
./target/release/verif selftest
# the libFuzzer targets (thorough tier) are built on demand by fuzz/run_fuzz.sh (about 4 min cold)
